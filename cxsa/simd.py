"""Value-graph evaluation of straight-line SIMD code: every vector register is a tuple of *bits*, each bit a
pair (tid, i): bit i of the hash-consed lane term tid, or the constants (-1, 0) / (-1, 1).

  * data movement (shuffles, blends, unpacks, byte shifts, alignr, broadcasts, casts, set*) is exact bit routing;
  * shifts inside lanes move bits and fill with constant zeros; xor / or of bits where at most one side is non-zero
    is routing as well, so `(x >> k) ^ (x << (w-k))` and a `pshufb` byte rotation both *are* rotr(x, k);
  * lane-wise add and the remaining xor / or create interned nodes with associative-commutative normal form
    (flattened operand multisets, constant folding, x ^ x = 0, x + x = x << 1).

Control is concrete (the functions analysed are macro-expanded straight-line code, helper calls are inlined,
constant-trip loops over concrete counters are followed), data is symbolic: two computations are equal when their
output bit tuples are identical.  The same TermBank builds the specification side (cxsa/spec graphs), so equality of
bit tuples is equality of value graphs modulo the normal form — nothing is executed on concrete data."""
import re

from . import mir

from .vgraph import TermBank, Z, O


def mir_index(name):
    return ("ops::Index" in name) and (name.endswith("::index") or name.endswith("::index_mut"))


class Unsupported(Exception):
    pass


def lanes(v, w):
    return [v[i:i + w] for i in range(0, len(v), w)]


def cat(ls):
    out = ()
    for l in ls:
        out += tuple(l)
    return out


def _copy_value(v):
    if isinstance(v, dict) and ("_it" in v or "_chunks" in v):
        # iterator state is a value, but the container it walks is borrowed, not owned
        return {k: (x if k == "cont" else (list(x) if k == "_chunks" else _copy_value(x))) for k, x in v.items()}
    if isinstance(v, dict):
        return {k: _copy_value(x) for k, x in v.items()}
    if isinstance(v, list):
        return list(v)
    return v


class Machine:
    """Concrete-control, symbolic-data evaluator for one crate function and the helpers it calls."""

    def __init__(self, prog, bank, w, mem, maxsteps=400000):
        self.P = prog
        self.B = bank
        self.w = w              # algorithm word width: lane size for width-less ops (xor/or on whole registers)
        self.mem = mem          # base name -> function(byte_offset, nbytes) -> bits   (little endian)
        self.stores = {}        # (base, byte offset) -> bits
        self.steps = 0
        self.maxsteps = maxsteps
        self.trace = []
        self.consts_read = []
        self.generics = {}      # const generic parameter name -> concrete value (one instantiation per evaluation)
        self.hooks = []         # (compiled regex, handler(machine, fn, call, args) -> value): calls kept opaque and recorded

    # ---- memory
    def load(self, ptr, nbytes):
        if isinstance(ptr, tuple) and ptr and ptr[0] == "aslice":
            ptr = ("eptr", ptr[1], ptr[2], 8)
        if isinstance(ptr, tuple) and ptr and ptr[0] == "eptr":
            cont, off, w = ptr[1], ptr[2], ptr[3]
            if (off * 8) % w or (nbytes * 8) % w:
                raise Unsupported("unaligned element load")
            return cat(self.scalar_bits(cont[off * 8 // w + k], w) for k in range(nbytes * 8 // w))
        if not (isinstance(ptr, tuple) and ptr[0] == "ptr"):
            raise Unsupported("load through %r" % (str(ptr)[:80],))
        base, off = ptr[1], ptr[2]
        got = []
        for k in range(nbytes):
            s = self.stores.get((base, off + k))
            got.append(s)
        if all(s is None for s in got):
            if base not in self.mem:
                raise Unsupported("load from unknown memory %s" % base)
            return self.mem[base](off, nbytes)
        out = ()
        fresh = self.mem[base](off, nbytes) if base in self.mem else None
        for k in range(nbytes):
            out += got[k] if got[k] is not None else fresh[8 * k: 8 * k + 8]
        return out

    def store(self, ptr, bits):
        if isinstance(ptr, tuple) and ptr and ptr[0] == "aslice":
            ptr = ("eptr", ptr[1], ptr[2], 8)
        if isinstance(ptr, tuple) and ptr and ptr[0] == "eptr":
            cont, off, w = ptr[1], ptr[2], ptr[3]
            if (off * 8) % w or len(bits) % w:
                raise Unsupported("unaligned element store")
            for k, l in enumerate(lanes(bits, w)):
                cont[off * 8 // w + k] = l
            return
        if not (isinstance(ptr, tuple) and ptr[0] == "ptr"):
            raise Unsupported("store through %r" % (str(ptr)[:80],))
        base, off = ptr[1], ptr[2]
        for k in range(len(bits) // 8):
            self.stores[(base, off + k)] = bits[8 * k: 8 * k + 8]

    # ---- evaluation of one function
    def call_fn(self, fn, args):
        env = {}
        for i, a in enumerate(args):
            env[i + 1] = a
        b = 0
        while True:
            self.steps += 1
            if self.steps > self.maxsteps:
                raise Unsupported("step budget exceeded")
            for s in fn.stmts(b):
                if s[0] == "=":
                    v = self.rvalue(fn, env, s[2])
                    self.assign(fn, env, s[1], v)
            t = fn.term(b)
            k = t[0]
            if k == "goto":
                b = t[1]
            elif k == "drop":
                b = t[2]
            elif k == "ret":
                return env.get(0)
            elif k == "assert":
                b = t[4]
            elif k == "call":
                c = mir.Call(fn, b, t)
                a = [self.operand(fn, env, x) for x in c.args]
                v = self.do_call(fn, c, a)
                if c.target is None:
                    raise Unsupported("diverging call %s" % c.name())
                self.assign(fn, env, c.dest, v)
                b = c.target
            elif k == "sw":
                v = self.operand(fn, env, t[1])
                if isinstance(v, bool):
                    v = int(v)
                if not isinstance(v, int):
                    v = self.sym_branch(fn, b, v)
                tgt = t[3]
                for val, bb in t[2]:
                    if val == v:
                        tgt = bb
                b = tgt
            else:
                raise Unsupported("terminator %s" % k)

    def sym_branch(self, fn, b, v):
        """a branch on a symbolic 1-bit condition: the harness decides which case is explored (branch_oracle gets the
        condition atom with negations stripped) and checks afterwards that the condition is the specified one"""
        orc = getattr(self, "branch_oracle", None)
        if orc is None or not (isinstance(v, tuple) and len(v) == 1 and isinstance(v[0], tuple)):
            raise Unsupported("branch on symbolic value in %s bb%d" % (fn.path, b))
        bit = v[0]
        neg = 0
        if bit[0] >= 0:
            d = self.B.defs[bit[0]]
            if d[0] == "lin" and len(d[2]) == 1 and d[3] == 1:
                bit, neg = d[2][0], 1
        return int(orc((bit,))) ^ neg

    def assign(self, fn, env, place, v):
        l, projs = place
        if not projs:
            if isinstance(v, dict) and not (fn.locals[l] or "").startswith(("&", "*")):
                v = _copy_value(v)          # arrays / structs are values: `let mut b = *h` must not alias h
            env[l] = v
            return
        if projs == ["*"]:
            p = env.get(l)
            if isinstance(p, tuple) and p[0] == "lref":
                p[1][p[2]] = v
                return
            if isinstance(p, tuple) and p[0] in ("ptr", "eptr", "aslice") and isinstance(v, tuple) and v and isinstance(v[0], tuple):
                self.store(p, v)
                return
            if isinstance(p, tuple) and p[0] in ("ptr", "eptr", "aslice") and isinstance(v, dict) and all(isinstance(x, tuple) and x and isinstance(x[0], tuple) for x in v.values()):
                self.store(p, cat(v[i] for i in range(len(v))))
                return
        p0 = env.get(l)
        if isinstance(p0, tuple) and p0 and p0[0] == "ptr" and projs[0] == "*" and len(projs) == 2 and projs[1][0] in ("i", "c"):
            m = re.match(r"^[&*](?:mut |const )?\[(?:u|i)(\d+)(?:; \d+)?\]$", fn.locals[l])
            if m:
                w = int(m.group(1))
                k = self.pkey(fn, env, projs[1])
                self.store(("ptr", p0[1], p0[2] + k * (w // 8)), self.scalar_bits(v, w))
                return
        if isinstance(p0, tuple) and p0 and p0[0] in ("lref", "aslice") and projs[0] == "*":
            cont, base = self.container(p0)
            cur = cont
            rest = projs[1:]
            for p in rest[:-1]:
                cur = self.proj(fn, env, cur, p, create=True)
            k = self.pkey(fn, env, rest[-1])
            cur[(k + base) if len(rest) == 1 else k] = v
            return
        # tuple / array element of a local aggregate
        cur = env.setdefault(l, {})
        for p in projs[:-1]:
            cur = self.proj(fn, env, cur, p, create=True)
        key = self.pkey(fn, env, projs[-1])
        if isinstance(cur, tuple) and cur and cur[0] == "lref":
            cur = cur[1].setdefault(cur[2], {})
        if isinstance(cur, dict):
            cur[key] = v
        else:
            raise Unsupported("store into %r" % (place,))

    def container(self, ref):
        """(dict, base index) behind a reference to a local array or a sub-slice of it"""
        if ref[0] == "lref":
            return ref[1][ref[2]], 0
        return ref[1], ref[2]

    def pkey(self, fn, env, p):
        if p[0] == "f":
            return p[1]
        if p[0] == "i":
            i = env.get(p[1])
            if not isinstance(i, int):
                raise Unsupported("symbolic index")
            return i
        if p[0] == "c":
            return p[1]
        raise Unsupported("projection %r" % (p,))

    def proj(self, fn, env, cur, p, create=False):
        if p == "*":
            if isinstance(cur, tuple) and cur and cur[0] == "lref":
                return cur[1][cur[2]]
            return cur
        if p[0] == "d":
            if isinstance(cur, tuple) and cur and cur[0] == "opt":
                return cur[2]
            return cur
        k = self.pkey(fn, env, p)
        if isinstance(cur, tuple) and cur and cur[0] == "aslice":
            return cur[1][cur[2] + k]
        if isinstance(cur, dict):
            if k not in cur:
                if create:
                    cur[k] = {}
                else:
                    raise Unsupported("read of unset element %r" % (k,))
            return cur[k]
        if isinstance(cur, (list,)):
            return cur[k]
        raise Unsupported("projection %r of %r" % (p, type(cur)))

    def read_place(self, fn, env, place):
        l, projs = place
        if l not in env:
            raise Unsupported("read of unset local _%d in %s" % (l, fn.path))
        cur = env[l]
        ty = fn.locals[l]
        for p in projs:
            if isinstance(cur, tuple) and cur and cur[0] in ("ptr", "eptr"):
                if p == "*":
                    ms = re.match(r"^(?:&(?:mut )?|\*(?:const|mut) )([ui])(8|16|32|64)$", ty or "")
                    if ms and len(projs) == 1:
                        return self.load(cur, int(ms.group(2)) // 8)
                    continue
                m = re.match(r"^[&*](?:mut |const )?\[(?:u|i)(\d+)(?:; \d+)?\]$", ty)
                if m and p[0] in ("i", "c"):
                    w = int(m.group(1))
                    k = self.pkey(fn, env, p)
                    return self.load(("ptr", cur[1], cur[2] + k * (w // 8)), w // 8)
                raise Unsupported("load through raw pointer of type %s" % ty)
            cur = self.proj(fn, env, cur, p)
        return cur

    def operand(self, fn, env, op):
        if op[0] == "k":
            d = op[1]
            v = d.get("v")
            if "param" in d and d["param"] in self.generics:
                return self.generics[d["param"]]
            if isinstance(v, bool):
                return v
            if isinstance(v, int):
                return v
            ty = d.get("t", "")
            m = re.match(r"^&\[(?:u|i)(\d+); (\d+)\]$", ty)
            if m and isinstance(v, list) and all(isinstance(x, int) for x in v):
                w = int(m.group(1))
                base = "const:%s:%s" % (d.get("def"), d.get("promoted"))
                flat = cat(self.B.const(x & ((1 << w) - 1), w) for x in v)
                self.mem[base] = (lambda fl: (lambda off, nb: fl[8 * off: 8 * off + 8 * nb]))(flat)
                self.consts_read.append((base, tuple(v)))
                if not hasattr(self, "const_arrays"):
                    self.const_arrays = {}
                self.const_arrays[base] = {i: self.B.const(x & ((1 << w) - 1), w) for i, x in enumerate(v)}
                return ("ptr", base, 0)
            if isinstance(v, list) and not ty.startswith("&"):
                def conv(x):
                    return {i: conv(y) for i, y in enumerate(x)} if isinstance(x, list) else x
                self.consts_read.append((d.get("def"), None))
                return conv(v)
            if isinstance(v, dict) and v.get("k") == "bytes" and ty.startswith("&") and len(v.get("hex", "")) == 2:
                return ("cref", int(v["hex"], 16))
            if ty in self.P.adts and isinstance(v, dict) and "k" not in v:
                return self.const_tree(v, ty)
            mt = re.match(r"^&\[([\w:]+); (\d+)\]$", ty)
            if mt and isinstance(v, list) and mt.group(1) in self.P.adts:
                # reference to a constant array of plain structs (e.g. the u64x2 pairs of the SHA-512 round constants)
                return self.const_tree(v, "[%s; %s]" % (mt.group(1), mt.group(2)))
            if "def" in d or "promoted" in d:
                return ("constref", d.get("def") or d.get("promoted"), d)
            if isinstance(v, dict) and v.get("k") == "zst":
                return None
            return ("k", d)
        return self.read_place(fn, env, op[1])

    def const_tree(self, v, ty):
        """an evaluated constant of array / struct / integer type as a machine value"""
        m = re.match(r"^\[(.+); (\d+)\]$", ty)
        if m:
            return {i: self.const_tree(x, m.group(1)) for i, x in enumerate(v)}
        m = re.match(r"^([ui])(\d+)$", ty)
        if m and isinstance(v, int):
            return self.B.const(v & ((1 << int(m.group(2))) - 1), int(m.group(2)))
        adt = self.P.adts.get(ty)
        if adt and isinstance(v, dict) and len(adt.get("variants", [])) == 1:
            fs = adt["variants"][0]["fields"]
            return {i: self.const_tree(v[f["name"]], f["t"]) for i, f in enumerate(fs)}
        raise Unsupported("constant of type %s" % ty)

    def rvalue(self, fn, env, rv):
        k = rv[0]
        if k == "use":
            return self.operand(fn, env, rv[1])
        if k == "cfd":
            return self.read_place(fn, env, rv[1])
        if k == "cast":
            v = self.operand(fn, env, rv[2])
            ty = rv[3] or ""
            if isinstance(v, int) and not isinstance(v, bool):
                m = re.match(r"^([iu])(\d+|size)$", ty)
                if m:
                    bits = 64 if m.group(2) == "size" else int(m.group(2))
                    v &= (1 << bits) - 1
                    if m.group(1) == "i" and v >> (bits - 1):
                        v -= 1 << bits
                return v
            if isinstance(v, tuple) and v and isinstance(v[0], tuple):
                # integer-typed symbolic scalar: width change (sign extension when the SOURCE type is signed)
                m = re.match(r"^[iu](\d+|size)$", ty)
                if m:
                    nb = 64 if m.group(1) == "size" else int(m.group(1))
                    if len(v) >= nb:
                        return v[:nb]
                    src = rv[2]
                    sty = fn.locals[src[1][0]] if (src[0] in ("cp", "mv") and not src[1][1]) else None
                    if sty is None:
                        raise Unsupported("widening cast of a symbolic value of unknown signedness")
                    ext = v[-1] if sty.startswith("i") else Z
                    return v + (ext,) * (nb - len(v))
            return v
        if k in ("ref", "raw"):
            l, projs = rv[2]
            if projs == ["*"]:
                return env[l]
            if not projs:
                return ("lref", env, l)
            if isinstance(env.get(l), tuple) and env[l] and env[l][0] == "ptr" and projs[0] == "*":
                raise Unsupported("reference into pointed-to memory")
            cur = env[l]
            for p in projs:
                cur = self.proj(fn, env, cur, p)
            return cur
        if k == "bin":
            a = self.operand(fn, env, rv[2])
            b = self.operand(fn, env, rv[3])
            op = rv[1]
            wo = op.endswith("WithOverflow")
            if wo:
                op = op[: -len("WithOverflow")]
            if isinstance(a, int) and isinstance(b, int):
                r = {"Add": a + b, "Sub": a - b, "Mul": a * b, "BitAnd": a & b, "BitOr": a | b, "BitXor": a ^ b, "Shl": a << b if b >= 0 else 0, "Shr": a >> b if b >= 0 else 0, "Lt": a < b, "Le": a <= b, "Gt": a > b, "Ge": a >= b, "Eq": a == b, "Ne": a != b, "Div": a // b if b else 0, "Rem": a % b if b else 0}.get(op)
                if r is None:
                    raise Unsupported("int op " + op)
                return {0: r, 1: False} if wo else r
            return self.sym_binop(op, wo, a, b)
        if k == "agg":
            ops = [self.operand(fn, env, o) for o in rv[2]]
            d_ = {i: o for i, o in enumerate(ops)}
            if rv[1] and rv[1][0] == "closure":
                d_["_closure"] = rv[1][1]
            return d_
        if k == "rep":
            v = self.operand(fn, env, rv[1])
            n = rv[2]
            if isinstance(n, int):
                return {i: v for i in range(n)}
            raise Unsupported("repeat with symbolic length")
        if k == "disc":
            v = self.read_place(fn, env, rv[1])
            if isinstance(v, tuple) and v and v[0] == "opt":
                return v[1]
            if isinstance(v, tuple) and v and v[0] == "cref":
                return v[1]
            if isinstance(v, int):
                return v
            raise Unsupported("discriminant of %r" % (v,))
        if k == "un":
            v = self.operand(fn, env, rv[2])
            if isinstance(v, int) and rv[1] == "Neg":
                return -v
            if isinstance(v, bool) and rv[1] == "Not":
                return not v
            if isinstance(v, tuple) and v and isinstance(v[0], tuple) and rv[1] == "Not":
                return self.B.not_(v)
            if rv[1] == "PtrMetadata":
                return self.seq(v)[2]
            raise Unsupported("unary " + rv[1])
        raise Unsupported("rvalue " + k)

    def sym_binop(self, op, wo, a, b):
        B = self.B
        symw = len(a) if isinstance(a, tuple) else len(b)
        if op in ("Shl", "Shr"):
            if not isinstance(b, int) or isinstance(b, bool):
                raise Unsupported("shift by symbolic amount")
            return (B.shl if op == "Shl" else B.shr)(a, b) if isinstance(a, tuple) else None
        x = a if isinstance(a, tuple) else B.const(int(a) & ((1 << symw) - 1), symw)
        y = b if isinstance(b, tuple) else B.const(int(b) & ((1 << symw) - 1), symw)
        if len(x) != len(y):
            raise Unsupported("width mismatch in %s" % op)
        if op == "BitXor":
            r = B.xor(x, y)
        elif op == "BitAnd":
            r = B.and_(x, y)
        elif op == "BitOr":
            r = B.or_(x, y)
        elif op == "Add":
            r = B.add(x, y)
            if wo:
                self.trace.append(("checked-add-assumed-no-overflow",))
        elif op == "Sub":
            r = B.sub(x, y)
            if wo:
                self.trace.append(("checked-sub-assumed-no-overflow",))
        elif op in ("Eq", "Ne"):
            r = B.pred("eq", x, y)
            if op == "Ne":
                r = B.not_(r)
            return r
        elif op in ("Lt", "Gt", "Le", "Ge"):
            p, q = (x, y) if op in ("Lt", "Ge") else (y, x)
            r = B.pred("ult", p, q)
            if op in ("Ge", "Le"):
                r = B.not_(r)
            return r
        else:
            raise Unsupported("symbolic scalar op %s" % op)
        return {0: r, 1: False} if wo else r

    # ---- calls
    def do_call(self, fn, c, a):
        nm = c.name()
        short = nm.split("::")[-1]
        imm = [int(x) for x in (c.ga or []) if isinstance(x, str) and re.match(r"^-?\d+$", x)]
        B = self.B
        for rx_, h_ in self.hooks:
            if rx_.search(nm):
                return h_(self, fn, c, a)
        if nm == "<T as core::convert::Into<U>>::into" and len(c.ga or []) == 2:
            # blanket Into: the crate's own `impl From<T> for U`
            g = self.P.fn_opt("<%s as core::convert::From<%s>>::from" % (c.ga[1], c.ga[0]))
            if g is None:
                cand = [f for pth, fs in self.P.by_path.items() for f in fs if pth.endswith("<impl core::convert::From<%s> for %s>::from" % (c.ga[0], c.ga[1]))]
                g = cand[0] if len(cand) == 1 else None
            if g is not None:
                return self.call_fn(g, a)
        if re.match(r"^core::clone::impls::<impl core::clone::Clone for (u|i)(8|16|32|64|128|size)>::clone$|^core::clone::impls::<impl core::clone::Clone for bool>::clone$", nm):
            x = a[0]
            while isinstance(x, tuple) and x and x[0] == "lref":
                x = x[1][x[2]]
            return x
        if re.match(r"^core::ops::(function::)?(FnOnce|FnMut|Fn)::call(_once|_mut)?$", nm) and len(a) == 2:
            # a closure passed as `impl Fn*`: the argument tuple is spread
            tup = a[1]
            params = [tup[k] for k in sorted(tup)] if isinstance(tup, dict) else [tup]
            return self.call_closure(a[0], params)
        if nm in ("core::cmp::min", "core::cmp::max") and all(isinstance(x, int) and not isinstance(x, bool) for x in a[:2]):
            return min(a[0], a[1]) if nm.endswith("min") else max(a[0], a[1])
        if re.search(r"ChunksExact(Mut)?(::)?<'\w+, T>(>)?::(into_)?remainder$", nm):
            st_ = a[0]
            if isinstance(st_, tuple) and st_ and st_[0] == "lref":
                st_ = st_[1][st_[2]]
            if isinstance(st_, dict) and "_chunks" in st_:
                cont, lo, hi, n, exact = st_["_chunks"]
                k_ = (hi - lo) // n          # full chunks not yet yielded: the remainder is what no chunk will ever cover
                return ("aslice", cont, lo + k_ * n, hi)
        if c.local and self.P.fn_opt(nm) is not None and not nm.startswith("core::") and not re.match(r"^cryptoutil::(read|write)_u(32|64)v_(le|be)$", nm):
            callee = self.P.fn(nm)
            # const generic arguments of this call bind the callee's parameters for the duration of the call
            bind = {}
            gl = callee.raw.get("generics", []) if hasattr(callee, "raw") else []
            st_ty = callee.raw.get("self_ty") or "" if hasattr(callee, "raw") else ""
            parent = [g[0] for g in gl if re.search(r"\b%s\b" % re.escape(g[0]), st_ty)]
            order = parent + [g[0] for g in gl if g[0] not in parent]
            for g, av in zip(order, c.res_ga or []):
                if isinstance(av, str):
                    m_ = re.match(r"^-?\d+", av)
                    if m_:
                        bind[g] = int(m_.group(0))
                    elif av in self.generics:
                        bind[g] = self.generics[av]
            if bind:
                saved = dict(self.generics)
                self.generics.update(bind)
                try:
                    return self.call_fn(callee, a)
                finally:
                    self.generics = saved
            return self.call_fn(callee, a)
        if re.search(r"slice::<impl \[T\]>::get_unchecked(_mut)?$", nm) or re.search(r"array::<impl \[T; N\]>::get_unchecked(_mut)?$", nm):
            x = a[0]
            if isinstance(x, tuple) and x and x[0] == "lref":
                x = x[1][x[2]]
            if not isinstance(a[1], int):
                raise Unsupported("get_unchecked with a symbolic / range index")
            if isinstance(x, dict):
                if a[1] not in x:
                    raise Unsupported("get_unchecked(%d) outside the array" % a[1])
                return ("lref", x, a[1])
            if isinstance(x, tuple) and x and x[0] == "aslice":
                if not (0 <= a[1] < x[3] - x[2]):
                    raise Unsupported("get_unchecked(%d) outside the slice" % a[1])
                return ("lref", x[1], x[2] + a[1])
            mm = re.match(r"^[ui](\d+)$", (c.ga or [""])[0])
            if isinstance(x, tuple) and x and x[0] == "ptr" and mm:
                return ("ptr", x[1], x[2] + a[1] * (int(mm.group(1)) // 8))
            raise Unsupported("get_unchecked on %r" % (str(x)[:40],))
        if nm in ("core::ptr::write_bytes", "core::intrinsics::write_bytes") and isinstance(a[2], int) and isinstance(a[0], tuple) and a[0] and a[0][0] == "eptr":
            cont, off, w_ = a[0][1], a[0][2], a[0][3]
            if (off * 8) % w_:
                raise Unsupported("unaligned write_bytes")
            if not isinstance(a[1], int):
                raise Unsupported("write_bytes of a symbolic byte")
            fill = 0
            for _ in range(w_ // 8):
                fill = (fill << 8) | (a[1] & 0xff)
            for k in range(a[2]):
                if (off * 8 // w_ + k) not in cont:
                    raise Unsupported("write_bytes beyond the buffer")
                cont[off * 8 // w_ + k] = B.const(fill, w_)
            return None
        if nm in ("core::ptr::read", "core::ptr::read_unaligned") or re.search(r"_ptr::<impl \*const T>::read(_unaligned)?$", nm):
            sz = {"i32": 4, "u32": 4, "u8": 1, "u64": 8, "i64": 8, "u16": 2, "core::arch::x86_64::__m128i": 16, "core::arch::x86_64::__m256i": 32}.get((c.ga or [""])[0])
            if sz is None:
                raise Unsupported("ptr::read of %s" % (c.ga,))
            return self.load(a[0], sz)
        if re.search(r"_ptr::<impl \*(const|mut) T>::(add|offset)$", nm):
            sz = {"core::arch::x86_64::__m128i": 16, "core::arch::x86_64::__m256i": 32, "u8": 1, "u32": 4, "u64": 8, "i32": 4, "i64": 8, "u16": 2, "i8": 1}.get(c.ga[0])
            if sz is None or not isinstance(a[1], int):
                raise Unsupported("ptr.add on %s" % c.ga)
            if a[0][0] == "eptr":
                return ("eptr", a[0][1], a[0][2] + sz * a[1], a[0][3])
            if a[0][0] == "aslice":
                return ("eptr", a[0][1], a[0][2] + sz * a[1], 8)
            return ("ptr", a[0][1], a[0][2] + sz * a[1])
        if short == "align_offset" and isinstance(a[0], tuple) and a[0][0] == "ptr" and isinstance(a[1], int):
            # the bases handed to the machine are declared aligned by the caller (C16 layout rule: repr(align(32)))
            self.trace.append(("align-assumed", a[0][1], a[1]))
            return (-a[0][2]) % a[1]
        if short in ("_mm_loadu_si128", "_mm_load_si128", "_mm_lddqu_si128"):
            return self.load(a[0], 16)
        if short in ("_mm256_loadu_si256", "_mm256_load_si256"):
            return self.load(a[0], 32)
        if short in ("_mm_store_si128", "_mm_storeu_si128", "_mm256_storeu_si256", "_mm256_store_si256"):
            self.store(a[0], a[1])
            return None
        if short in ("_mm_castsi128_ps", "_mm_castps_si128", "_mm256_castsi256_ps", "_mm256_castps_si256"):
            return a[0]
        if short == "_mm256_castsi128_si256":
            return a[0] + B.opaque("undef-upper", 128, [a[0]])
        if short == "_mm256_broadcastsi128_si256":
            return a[0] + a[0]
        if short in ("_mm_xor_si128", "_mm256_xor_si256"):
            return cat(B.xor(x, y) for x, y in zip(lanes(a[0], self.w), lanes(a[1], self.w)))
        if short in ("_mm_or_si128", "_mm256_or_si256"):
            return cat(B.or_(x, y) for x, y in zip(lanes(a[0], self.w), lanes(a[1], self.w)))
        if short in ("_mm_and_si128", "_mm256_and_si256"):
            return cat(B.and_(x, y) for x, y in zip(lanes(a[0], self.w), lanes(a[1], self.w)))
        m = re.match(r"^_mm(256)?_add_epi(32|64)$", short)
        if m:
            w = int(m.group(2))
            return cat(B.add(x, y) for x, y in zip(lanes(a[0], w), lanes(a[1], w)))
        m = re.match(r"^_mm(256)?_(srli|slli)_epi(16|32|64)$", short)
        if m:
            w = int(m.group(3))
            k = imm[0] if imm else a[1]
            f = B.shr if m.group(2) == "srli" else B.shl
            return cat(f(x, k) for x in lanes(a[0], w))
        m = re.match(r"^_mm(256)?_(srli|slli)_si(128|256)$", short)
        if m:
            k = imm[0] * 8
            f = B.shr if m.group(2) == "srli" else B.shl
            return cat(f(x, k) for x in lanes(a[0], 128))
        m = re.match(r"^_mm(256)?_shuffle_epi32$", short)
        if m:
            out = []
            for half in lanes(a[0], 128):
                d = lanes(half, 32)
                out += [d[(imm[0] >> (2 * i)) & 3] for i in range(4)]
            return cat(out)
        if short == "_mm_shuffle_ps":
            x, y = lanes(a[0], 32), lanes(a[1], 32)
            i8 = imm[0]
            return cat([x[i8 & 3], x[(i8 >> 2) & 3], y[(i8 >> 4) & 3], y[(i8 >> 6) & 3]])
        m = re.match(r"^_mm(256)?_shuffle(hi|lo)_epi16$", short)
        if m:
            out = []
            for half in lanes(a[0], 128):
                d = lanes(half, 16)
                base = 4 if m.group(2) == "hi" else 0
                nd = list(d)
                for i in range(4):
                    nd[base + i] = d[base + ((imm[0] >> (2 * i)) & 3)]
                out += nd
            return cat(out)
        m = re.match(r"^_mm(256)?_shuffle_epi8$", short)
        if m:
            out = []
            for half, ctl in zip(lanes(a[0], 128), lanes(a[1], 128)):
                by = lanes(half, 8)
                for cb in lanes(ctl, 8):
                    if not B.is_const(cb):
                        raise Unsupported("pshufb with symbolic control")
                    cv = B.cval(cb)
                    out.append((Z,) * 8 if cv & 0x80 else by[cv & 15])
            return cat(out)
        m = re.match(r"^_mm(256)?_blend_epi(16|32)$", short)
        if m:
            w = int(m.group(2))
            out = []
            for x, y in zip(lanes(a[0], 128), lanes(a[1], 128)) if w == 16 else [(a[0], a[1])]:
                dx, dy = lanes(x, w), lanes(y, w)
                out += [dy[i] if (imm[0] >> i) & 1 else dx[i] for i in range(len(dx))]
            return cat(out)
        m = re.match(r"^_mm(256)?_unpack(lo|hi)_epi(8|16|32|64)$", short)
        if m:
            w = int(m.group(3))
            out = []
            for x, y in zip(lanes(a[0], 128), lanes(a[1], 128)):
                dx, dy = lanes(x, w), lanes(y, w)
                n = len(dx) // 2
                off = n if m.group(2) == "hi" else 0
                for i in range(n):
                    out += [dx[off + i], dy[off + i]]
            return cat(out)
        m = re.match(r"^_mm(256)?_alignr_epi8$", short)
        if m:
            out = []
            for x, y in zip(lanes(a[0], 128), lanes(a[1], 128)):
                both = y + x + (Z,) * 128
                out.append(both[8 * imm[0]: 8 * imm[0] + 128])
            return cat(out)
        if short == "_mm256_permute4x64_epi64":
            d = lanes(a[0], 64)
            return cat(d[(imm[0] >> (2 * i)) & 3] for i in range(4))
        if short == "_mm256_permute2x128_si256":
            d = lanes(a[0], 128) + lanes(a[1], 128)
            out = []
            for i in (0, 4):
                sel = (imm[0] >> i) & 0xF
                out.append((Z,) * 128 if sel & 8 else d[sel & 3])
            return cat(out)
        m = re.match(r"^_mm(256)?_set(r)?_epi(8|16|32|64x?)$", short)
        if m:
            w = int(m.group(3).rstrip("x"))
            vals = [self.scalar_bits(x, w) for x in a]
            if not m.group(2):
                vals = vals[::-1]
            return cat(vals)
        m = re.match(r"^_mm(256)?_set1_epi(8|16|32|64x?)$", short)
        if m:
            w = int(m.group(2).rstrip("x"))
            n = (256 if m.group(1) else 128) // w
            return cat([self.scalar_bits(a[0], w)] * n)
        if short in ("_mm_setzero_si128", "_mm256_setzero_si256"):
            return (Z,) * (256 if "256" in short else 128)
        if short == "_mm_cvtsi32_si128":
            return self.scalar_bits(a[0], 32) + (Z,) * 96
        m = re.match(r"^_mm(256)?_insert_epi(32|64)$", short)
        if m:
            w = int(m.group(2))
            d = lanes(a[0], w)
            d[imm[0]] = self.scalar_bits(a[1], w)
            return cat(d)
        m = re.match(r"^_mm(256)?_extract_epi(32|64)$", short)
        if m:
            w = int(m.group(2))
            return lanes(a[0], w)[imm[0]]
        m = re.match(r"^core::num::<impl ([ui])(\d+)>::(wrapping_neg)$", nm)
        if m:
            w = int(m.group(2))
            return B.sub(B.const(0, w), self.scalar_bits(a[0], w))
        # operator traits of the primitive integers on references: `acc |= b` with b: &u64, `x ^ y` with x, y: &u64
        m = re.match(r"^<&?([ui])(\d+) as core::ops::(BitOr|BitXor|BitAnd|Add|Sub)(Assign)?<&?[ui]\d+>>::\w+$", nm)
        if m:
            w = int(m.group(2))

            def val(x):
                while isinstance(x, tuple) and x and x[0] == "lref":
                    x = x[1][x[2]]
                return self.scalar_bits(x, w)
            op_ = m.group(3)
            if m.group(4):
                tgt = a[0]
                cur = val(tgt)
                y = val(a[1])
            else:
                cur, y = val(a[0]), val(a[1])
            r = {"BitOr": B.or_, "BitXor": B.xor, "BitAnd": B.and_, "Add": B.add, "Sub": B.sub}[op_](cur, y)
            if m.group(4):
                if not (isinstance(tgt, tuple) and tgt and tgt[0] == "lref"):
                    raise Unsupported("compound assignment through %r" % (str(tgt)[:30],))
                tgt[1][tgt[2]] = r
                return None
            return r
        m = re.match(r"^core::num::<impl ([ui])(\d+)>::(wrapping_add|wrapping_sub|rotate_right|rotate_left|swap_bytes|to_be|to_le|from_be|from_le)$", nm)
        if m:
            w = int(m.group(2))
            op = m.group(3)
            x = self.scalar_bits(a[0], w)
            if op in ("rotate_right", "rotate_left"):
                if not isinstance(a[1], int):
                    raise Unsupported("rotation by symbolic amount")
                return B.rotr(x, a[1]) if op == "rotate_right" else B.rotl(x, a[1])
            if op in ("wrapping_add", "wrapping_sub"):
                y = self.scalar_bits(a[1], w)
                return B.add(x, y) if op == "wrapping_add" else B.sub(x, y)
            if op in ("swap_bytes", "to_be", "from_be"):
                return cat(lanes(x, 8)[::-1])
            return x
        m = re.match(r"^cryptoutil::(read|write)_u(32|64)v_(le|be)$", nm)
        if m:
            # summary of the crate's word (de)serialisers: dst[i] = word i of src in the named byte order
            w = int(m.group(2))
            nbytes = w // 8
            if m.group(1) == "read":
                dcont, dbase, dn = self.seq(a[0])
                for i in range(dn):
                    bits = self.read_bytes(a[1], i * nbytes, nbytes)
                    if m.group(3) == "be":
                        bits = cat(lanes(bits, 8)[::-1])
                    dcont[dbase + i] = bits
            else:
                scont, sbase, sn = self.seq(a[1])
                for i in range(sn):
                    bits = self.scalar_bits(scont[sbase + i], w)
                    if m.group(3) == "be":
                        bits = cat(lanes(bits, 8)[::-1])
                    self.write_bytes(a[0], i * nbytes, bits)
            self.trace.append(("summary", nm))
            return None
        if mir_index(nm) and isinstance(a[0], dict) and isinstance(a[1], dict) and all(isinstance(k, int) for k in a[0]):
            a = [("aslice", a[0], 0, len(a[0])), a[1]]
        if mir_index(nm) and isinstance(a[0], tuple) and a[0] and a[0][0] in ("lref", "aslice", "ptr") and isinstance(a[1], dict):
            r = a[1]
            if a[0][0] == "ptr":
                ty = (c.ga or [""])[0]
                mm = re.match(r"^\[(?:u|i)(\d+)(?:; \d+)?\]$", ty)
                if not mm:
                    raise Unsupported("range index of %s" % ty)
                sz = int(mm.group(1)) // 8
                kind = (c.ga or ["", ""])[-1]
                lo = 0 if ("RangeTo" in kind or "RangeFull" in kind) else r[0]
                return ("ptr", a[0][1], a[0][2] + lo * sz)
            cont, base = self.container(a[0])
            n = (a[0][3] - a[0][2]) if a[0][0] == "aslice" else len(cont)
            kind = ([g for g in (c.ga or []) if isinstance(g, str) and "Range" in g] or [(c.ga or ["", ""])[-1]])[0]
            lo, hi = 0, n
            if "RangeFrom" in kind:
                lo = r[0]
            elif "RangeTo" in kind:
                hi = r[0]
            elif "RangeFull" in kind:
                pass
            else:
                lo, hi = r[0], r[1]
            return ("aslice", cont, base + lo, base + hi)
        if re.search(r"slice::<impl \[T\]>::copy_from_slice$", nm):
            w = int(re.match(r"^[ui](\d+)$", c.ga[0]).group(1))
            dcont, dbase, dn = self.seq(a[0])
            for i in range(dn):
                dcont[dbase + i] = self.elem(a[1], i, w)
            return None
        if re.search(r"slice::<impl \[T\]>::len$", nm):
            return self.seq(a[0])[2]
        if re.search(r"slice::<impl \[T\]>::is_empty$", nm):
            return self.seq(a[0])[2] == 0
        if re.search(r"slice::<impl \[T\]>::chunks(_exact)?(_mut)?$", nm) and isinstance(a[1], int) and a[1] > 0:
            cont, base, n = self.seq(a[0])
            return {"_chunks": [cont, base, base + n, a[1], "_exact" in nm.split("::")[-1]]}
        if re.search(r"core::slice::Chunks(Exact)?(Mut)?<'a, T> as core::iter::Iterator>::next$", nm) and isinstance(a[0], tuple) and a[0][0] == "lref":
            it = a[0][1][a[0][2]]
            st = it.get("_chunks") if isinstance(it, dict) else None
            if st is None:
                raise Unsupported("chunk iterator state")
            cont, lo, hi, n, exact = st
            if lo >= hi or (exact and hi - lo < n):
                return ("opt", 0, {})
            e = min(hi, lo + n)
            st[1] = e
            return ("opt", 1, {0: ("aslice", cont, lo, e)})
        if re.search(r"(slice::<impl \[T\]>|array::<impl \[T; N\]>)::as_(mut_)?ptr$", nm) or re.search(r"slice::<impl \[T\]>::as_(mut_)?ptr$", nm):
            x = a[0]
            if isinstance(x, tuple) and x and x[0] == "lref":
                x = x[1][x[2]]
            mm = re.match(r"^[ui](\d+)$", (c.ga or [""])[0])
            if isinstance(x, dict) and mm:
                return ("eptr", x, 0, int(mm.group(1)))
            if isinstance(x, tuple) and x and x[0] == "aslice" and mm:
                w = int(mm.group(1))
                return ("eptr", x[1], x[2] * (w // 8), w)
            return a[0]
        if re.search(r" as core::cmp::PartialEq>::eq$", nm):
            vals = []
            for x in a:
                if isinstance(x, tuple) and x and x[0] == "lref":
                    x = x[1][x[2]]
                elif isinstance(x, tuple) and x and x[0] == "cref":
                    x = x[1]
                vals.append(x)
            if all(isinstance(x, int) for x in vals):
                return vals[0] == vals[1]
            raise Unsupported("eq on symbolic values")
        mm = re.search(r"TryFrom<&'a (mut )?\[T\]> for &'a (mut )?\[T; N\]>::try_from$", nm) or re.search(r"TryFrom<&\[T\]> for \[T; N\]>::try_from$", nm) or (short == "try_into" and re.search(r"TryInto<", nm))
        if mm:
            cont, base, n = self.seq(a[0]) if not (isinstance(a[0], tuple) and a[0] and a[0][0] == "ptr") else (None, a[0][2], None)
            want = [int(x) for x in (c.ga or []) if isinstance(x, str) and re.match(r"^\d+$", x)]
            if not want:
                # `[u8; W]` with W a const parameter bound by the enclosing call
                for x in (c.ga or []):
                    mg = re.search(r"\[[ui]\d+; (\w+)\]", str(x))
                    if mg and mg.group(1) in self.generics:
                        want = [self.generics[mg.group(1)]]
            if not want:
                mt = re.search(r"\[[ui]\d+; (\d+)\]", " ".join(str(x) for x in (c.ga or [])))
                want = [int(mt.group(1))] if mt else []
            if cont is None:
                if not want:
                    raise Unsupported("try_from on a raw window of unknown length")
                return ("opt", 0, {0: a[0]})
            if want and want[0] != n:
                return ("opt", 1, {0: None})
            copy = bool(re.search(r"for \[T; N\]>::try_from$", nm)) or (short == "try_into" and not re.search(r"&'?\w* ?(mut )?\[[ui]\d+; \d+\]", str((c.ga or ["", ""])[-1])))
            if copy:
                return ("opt", 0, {0: {i: cont[base + i] for i in range(n)}})
            return ("opt", 0, {0: ("aslice", cont, base, base + n)})
        if re.search(r"(result::Result::<T, E>|option::Option::<T>)::(unwrap|expect)$", nm):
            v = a[0]
            if isinstance(v, tuple) and v and v[0] == "opt":
                okdisc = 0 if "Result" in nm else 1
                if v[1] != okdisc:
                    raise Unsupported("unwrap of Err/None: the call panics on this input shape")
                return v[2][0]
            raise Unsupported("unwrap of %r" % (str(v)[:40],))
        mm = re.match(r"^core::num::<impl ([ui])(\d+)>::(from|to)_(le|be|ne)_bytes$", nm)
        if mm:
            w = int(mm.group(2))
            if mm.group(3) == "from":
                x = a[0]
                if isinstance(x, tuple) and x and x[0] == "lref":
                    x = x[1][x[2]]
                if isinstance(x, tuple) and x and x[0] in ("ptr", "eptr"):
                    by = lanes(self.load(x, w // 8), 8)
                    n = w // 8
                else:
                    cont, base, n = self.seq(x)
                    by = [self.scalar_bits(cont[base + i], 8) for i in range(n)]
                if n * 8 != w:
                    raise Unsupported("from_bytes of %d bytes" % n)
                if mm.group(4) == "be":
                    by = by[::-1]
                return cat(by)
            by = lanes(self.scalar_bits(a[0], w), 8)
            if mm.group(4) == "be":
                by = by[::-1]
            return {i: by[i] for i in range(len(by))}
        mm = re.match(r"^core::num::<impl ([ui])(\d+)>::checked_(add|sub|mul)$", nm)
        if mm and all(isinstance(x, int) and not isinstance(x, bool) for x in a[:2]):
            w = int(mm.group(2))
            r_ = {"add": a[0] + a[1], "sub": a[0] - a[1], "mul": a[0] * a[1]}[mm.group(3)]
            lo_, hi_ = (0, (1 << w) - 1) if mm.group(1) == "u" else (-(1 << (w - 1)), (1 << (w - 1)) - 1)
            return ("opt", 1, {0: r_}) if lo_ <= r_ <= hi_ else ("opt", 0, {})
        # ---- Vec<T> as a growable array of concrete length: the container is the same dict an array local uses
        if nm in ("core::iter::repeat", "core::iter::sources::repeat::repeat"):
            return {"_it": "repeat", "v": a[0]}
        if nm in ("alloc::vec::from_elem",) and isinstance(a[1], int):
            return {i: a[0] for i in range(a[1])}
        if re.search(r"^core::iter::(traits::iterator::)?Iterator::collect$", nm):
            it = self.it_of(a[0])
            out_ = {}
            while True:
                o, v = self.it_next(it)
                if not o:
                    break
                while isinstance(v, tuple) and v and v[0] == "lref":
                    v = v[1][v[2]]
                out_[len(out_)] = _copy_value(v)
                if len(out_) > 100000:
                    raise Unsupported("collect of an unbounded iterator")
            return out_
        if re.search(r"^<alloc::vec::Vec<T(, A)?> as core::clone::Clone>::clone$", nm):
            x = a[0]
            while isinstance(x, tuple) and x and x[0] == "lref":
                x = x[1][x[2]]
            return _copy_value(x)
        if re.search(r"^<alloc::vec::Vec<T(, A)?> as core::ops::Deref(Mut)?>::deref(_mut)?$", nm) or re.search(r"^alloc::vec::Vec::<T(, A)?>::as_(mut_)?slice$", nm):
            cont, base, n = self.seq(a[0])
            return ("aslice", cont, base, base + n)
        if re.search(r"^alloc::vec::Vec::<T(, A)?>::(len|is_empty)$", nm):
            n = self.seq(a[0])[2]
            return n if nm.endswith("len") else n == 0
        mm = re.match(r"^core::num::<impl ([ui])(\d+)>::overflowing_(add|sub)$", nm)
        if mm:
            w = int(mm.group(2))
            x, y = self.scalar_bits(a[0], w), self.scalar_bits(a[1], w)
            if mm.group(3) == "add":
                return {0: B.add(x, y), 1: B.pred("carry", x, y)}
            return {0: B.sub(x, y), 1: B.pred("borrow", x, y)}
        if re.search(r"(slice::<impl \[T\]>|array::<impl \[T; N\]>)::iter(_mut)?$", nm):
            return self.slice_iter(a[0])
        if nm.endswith("IntoIterator>::into_iter") and isinstance(a[0], tuple) and a[0] and a[0][0] == "lref" and isinstance(a[0][1].get(a[0][2]) if isinstance(a[0][1], dict) else None, dict) and ("_it" in a[0][1][a[0][2]] or "_chunks" in a[0][1][a[0][2]]):
            return a[0]
        if nm.endswith("IntoIterator>::into_iter") and not (isinstance(a[0], dict) and ("_it" in a[0] or "_chunks" in a[0] or set(a[0].keys()) == {0, 1})):
            # `for x in &array` / `for x in slice`
            try:
                return self.slice_iter(a[0])
            except Unsupported:
                pass
        m_it = re.match(r"^core::iter::(?:traits::iterator::)?Iterator::(rev|zip|enumerate|step_by|take|skip|copied|cloned|map|for_each|fold|by_ref)$", nm) or re.search(r" as core::iter::(?:traits::iterator::)?Iterator>::(rev|zip|enumerate|step_by|take|skip|copied|cloned|map|for_each|fold|by_ref)$", nm)
        if m_it:
            op_ = m_it.group(1)
            it = self.it_of(a[0])
            if op_ == "rev":
                return {"_it": "rev", "a": it}
            if op_ == "zip":
                other = a[1]
                try:
                    ob = self.it_of(other)
                except Unsupported:
                    ob = self.slice_iter(other)
                return {"_it": "zip", "a": it, "b": ob}
            if op_ == "enumerate":
                return {"_it": "enumerate", "a": it, "n": 0}
            if op_ == "step_by":
                if not isinstance(a[1], int) or a[1] <= 0:
                    raise Unsupported("step_by with a symbolic step")
                return {"_it": "step", "a": it, "n": a[1], "first": True}
            if op_ in ("take", "skip"):
                if not isinstance(a[1], int):
                    raise Unsupported("%s with a symbolic count" % op_)
                return {"_it": op_, "a": it, "n": a[1]}
            if op_ in ("copied", "cloned"):
                return {"_it": "copied", "a": it}
            if op_ == "map":
                return {"_it": "map", "a": it, "f": a[1]}
            if op_ == "by_ref":
                return a[0]
            if op_ == "for_each":
                while True:
                    o, v = self.it_next(it)
                    if not o:
                        return None
                    self.call_closure(a[1], [v])
            if op_ == "fold":
                acc = a[1]
                while True:
                    o, v = self.it_next(it)
                    if not o:
                        return acc
                    acc = self.call_closure(a[2], [acc, v])
        if re.search(r" as core::iter::(?:traits::iterator::)?Iterator>::next$", nm) and isinstance(a[0], tuple) and a[0] and a[0][0] == "lref":
            st_ = a[0][1][a[0][2]]
            while isinstance(st_, tuple) and st_ and st_[0] == "lref":     # `for x in &mut iter`: a reference to the iterator
                st_ = st_[1][st_[2]]
            if isinstance(st_, dict) and ("_it" in st_ or "_chunks" in st_):
                o, v = self.it_next(st_)
                return ("opt", 1, {0: v}) if o else ("opt", 0, {})
        if re.search(r"slice::<impl \[T\]>::split_at(_mut)?$", nm) and isinstance(a[1], int):
            cont, base, n = self.seq(a[0])
            if not (0 <= a[1] <= n):
                raise Unsupported("split_at(%d) outside a slice of %d elements" % (a[1], n))
            return {0: ("aslice", cont, base, base + a[1]), 1: ("aslice", cont, base + a[1], base + n)}
        if nm.endswith("IntoIterator>::into_iter") or short == "into_iter":
            return a[0]
        if re.search(r"Iterator for core::ops::Range<A>>::next$", nm) and isinstance(a[0], tuple) and a[0][0] == "lref":
            r = a[0][1][a[0][2]]
            if r[0] < r[1]:
                v = r[0]
                r[0] = v + 1
                return ("opt", 1, {0: v})
            return ("opt", 0, {})
        raise Unsupported("call %s" % nm)

    # ---- iterators (concrete control: every iterator the analysed code builds has a concrete length)
    def it_of(self, x):
        """iterator state for a value an iterator adaptor / consumer receives"""
        while isinstance(x, tuple) and x and x[0] == "lref":
            x = x[1][x[2]]
        if isinstance(x, dict) and "_it" in x:
            return x
        if isinstance(x, dict) and "_chunks" in x:
            return x
        if isinstance(x, dict) and set(x.keys()) == {0, 1} and all(isinstance(v, int) and not isinstance(v, bool) for v in x.values()):
            return {"_it": "range", "r": x}
        raise Unsupported("iterator over %r" % (str(x)[:50],))

    def slice_iter(self, x):
        cont, base, n = self.seq(x)
        return {"_it": "slice", "cont": cont, "i": base, "hi": base + n}

    def it_next(self, it):
        """(True, item) or (False, None); slice iterators yield element references"""
        k = it.get("_it")
        if "_chunks" in it:
            st = it["_chunks"]
            cont, lo, hi, n, exact = st
            if lo >= hi or (exact and hi - lo < n):
                return False, None
            e = min(hi, lo + n)
            st[1] = e
            return True, ("aslice", cont, lo, e)
        if k == "range":
            r = it["r"]
            if r[0] < r[1]:
                v = r[0]
                r[0] = v + 1
                return True, v
            return False, None
        if k == "repeat":
            return True, it["v"]
        if k == "slice":
            if it["i"] < it["hi"]:
                i = it["i"]
                it["i"] = i + 1
                return True, ("lref", it["cont"], i)
            return False, None
        if k == "rev":
            a = it["a"]
            if a.get("_it") == "range":
                r = a["r"]
                if r[0] < r[1]:
                    r[1] -= 1
                    return True, r[1]
                return False, None
            if a.get("_it") == "slice":
                if a["i"] < a["hi"]:
                    a["hi"] -= 1
                    return True, ("lref", a["cont"], a["hi"])
                return False, None
            raise Unsupported("rev of %s" % a.get("_it"))
        if k == "zip":
            oa, va = self.it_next(it["a"])
            if not oa:
                return False, None
            ob, vb = self.it_next(it["b"])
            if not ob:
                return False, None
            return True, {0: va, 1: vb}
        if k == "enumerate":
            o, v = self.it_next(it["a"])
            if not o:
                return False, None
            n = it["n"]
            it["n"] = n + 1
            return True, {0: n, 1: v}
        if k == "step":
            if it["first"]:
                it["first"] = False
                return self.it_next(it["a"])
            for _ in range(it["n"] - 1):
                o, v = self.it_next(it["a"])
                if not o:
                    return False, None
            return self.it_next(it["a"])
        if k == "take":
            if it["n"] <= 0:
                return False, None
            it["n"] -= 1
            return self.it_next(it["a"])
        if k == "skip":
            while it["n"] > 0:
                it["n"] -= 1
                o, v = self.it_next(it["a"])
                if not o:
                    return False, None
            return self.it_next(it["a"])
        if k == "copied":
            o, v = self.it_next(it["a"])
            if not o:
                return False, None
            if isinstance(v, tuple) and v and v[0] == "lref":
                v = v[1][v[2]]
            return True, v
        if k == "map":
            o, v = self.it_next(it["a"])
            if not o:
                return False, None
            return True, self.call_closure(it["f"], [v])
        raise Unsupported("iterator kind %s" % k)

    def call_closure(self, clo, params):
        if isinstance(clo, tuple) and clo and clo[0] == "lref":
            clo = clo[1][clo[2]]
        if not (isinstance(clo, dict) and "_closure" in clo):
            raise Unsupported("call of a non-closure function value")
        cf = self.P.fn_opt(clo["_closure"])
        if cf is None:
            raise Unsupported("closure body %s not in the fact base" % clo["_closure"])
        holder = {"c": clo}
        # Fn / FnMut bodies take the environment by reference, FnOnce bodies (a closure that moves its captures) by value
        envty = cf.locals[1] if len(cf.locals) > 1 else "&"
        if not envty.strip().startswith("&"):
            return self.call_fn(cf, [clo] + list(params))
        return self.call_fn(cf, [("lref", holder, "c")] + list(params))

    def seq(self, ref):
        """(container dict, base index, length) of a reference to a local array / sub-slice"""
        if isinstance(ref, tuple) and ref and ref[0] == "lref":
            cont = ref[1][ref[2]]
            return cont, 0, len(cont)
        if isinstance(ref, tuple) and ref and ref[0] == "aslice":
            return ref[1], ref[2], ref[3] - ref[2]
        if isinstance(ref, dict):
            return ref, 0, len(ref)
        if isinstance(ref, tuple) and ref and ref[0] == "ptr" and ref[2] == 0 and ref[1] in getattr(self, "const_arrays", {}):
            c_ = dict(self.const_arrays[ref[1]])       # a constant array read as a sequence (e.g. `&[]`)
            return c_, 0, len(c_)
        raise Unsupported("sequence %r" % (ref[:1] if isinstance(ref, tuple) else str(ref)[:60],))

    def elem(self, ref, i, w):
        if isinstance(ref, tuple) and ref and ref[0] == "ptr":
            return self.load(("ptr", ref[1], ref[2] + i * (w // 8)), w // 8)
        cont, base, n = self.seq(ref)
        return self.scalar_bits(cont[base + i], w)

    def read_bytes(self, ref, off, n):
        if isinstance(ref, tuple) and ref and ref[0] == "ptr":
            return self.load(("ptr", ref[1], ref[2] + off), n)
        cont, base, ln = self.seq(ref)
        return cat(self.scalar_bits(cont[base + off + k], 8) for k in range(n))

    def write_bytes(self, ref, off, bits):
        if isinstance(ref, tuple) and ref and ref[0] == "ptr":
            self.store(("ptr", ref[1], ref[2] + off), bits)
            return
        cont, base, ln = self.seq(ref)
        for k, by in enumerate(lanes(bits, 8)):
            cont[base + off + k] = by

    def scalar_bits(self, v, w):
        if isinstance(v, bool):
            v = int(v)
        if isinstance(v, int):
            return self.B.const(v & ((1 << w) - 1), w)
        if isinstance(v, tuple) and v and isinstance(v[0], tuple):
            if len(v) == w:
                return v
            return v[:w] if len(v) > w else v + (Z,) * (w - len(v))
        raise Unsupported("scalar %r" % (v,))


# ----------------------------------------------------------------------------------------- BLAKE2 specification graph
def blake2_F(B, w, h, m, t, f, IV, sigma, rounds, R):
    """RFC 7693 compression function F as a value graph: lists of w-bit lanes in, 8 lanes out."""
    v = list(h) + [B.const(x, w) for x in IV]
    v[12] = B.xor(v[12], t[0])
    v[13] = B.xor(v[13], t[1])
    v[14] = B.xor(v[14], f[0])
    v[15] = B.xor(v[15], f[1])

    def G(a, b, c, d, x, y):
        v[a] = B.add(B.add(v[a], v[b]), x)
        v[d] = B.rotr(B.xor(v[d], v[a]), R[0])
        v[c] = B.add(v[c], v[d])
        v[b] = B.rotr(B.xor(v[b], v[c]), R[1])
        v[a] = B.add(B.add(v[a], v[b]), y)
        v[d] = B.rotr(B.xor(v[d], v[a]), R[2])
        v[c] = B.add(v[c], v[d])
        v[b] = B.rotr(B.xor(v[b], v[c]), R[3])

    for r in range(rounds):
        s = sigma[r % 10]
        G(0, 4, 8, 12, m[s[0]], m[s[1]])
        G(1, 5, 9, 13, m[s[2]], m[s[3]])
        G(2, 6, 10, 14, m[s[4]], m[s[5]])
        G(3, 7, 11, 15, m[s[6]], m[s[7]])
        G(0, 5, 10, 15, m[s[8]], m[s[9]])
        G(1, 6, 11, 12, m[s[10]], m[s[11]])
        G(2, 7, 8, 13, m[s[12]], m[s[13]])
        G(3, 4, 9, 14, m[s[14]], m[s[15]])
    return [B.xor(B.xor(h[i], v[i]), v[i + 8]) for i in range(8)]
