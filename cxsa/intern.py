"""Hash-consing of ssa terms.  The ssa evaluator shares sub-term *objects* but its terms are plain nested tuples, whose
hash / equality cost is proportional to the size of the unfolded tree (exponential for long carry chains).  `Interner`
rebuilds a term DAG bottom-up into `T` nodes: structurally equal terms become the same object, `T` hashes in O(1)
(cached, from the children's cached hashes) and two `T`s are equal iff identical.  Everything that consumes terms
(interval, bit-provenance and limb-polynomial domains) works unchanged on `T`s, with memo tables that stay linear."""
from . import ssa


class T(tuple):

    def __hash__(self):
        return self._h

    def __eq__(self, other):
        if other is self:
            return True
        if isinstance(other, T):
            return False
        return tuple.__eq__(self, other)

    def __ne__(self, other):
        return not self.__eq__(other)


class Interner:
    def __init__(self):
        self.by_id = {}
        self.table = {}
        self.keep = []

    def canon(self, t):
        if not isinstance(t, tuple) or isinstance(t, T):
            return t
        got = self.by_id.get(id(t))
        if got is not None:
            return got
        st = [(t, False)]
        while st:
            x, done = st.pop()
            if id(x) in self.by_id:
                continue
            if not done:
                st.append((x, True))
                for y in x:
                    if isinstance(y, tuple) and not isinstance(y, T) and id(y) not in self.by_id:
                        st.append((y, False))
                continue
            ch = tuple((self.by_id[id(y)] if (isinstance(y, tuple) and not isinstance(y, T)) else y) for y in x)
            key = tuple((("#", id(y)) if isinstance(y, T) else ("v", type(y).__name__, y)) for y in ch)
            c = self.table.get(key)
            if c is None:
                c = T(ch)
                c._h = hash(tuple((y._h if isinstance(y, T) else hash((type(y).__name__, y))) for y in ch))
                self.table[key] = c
            self.by_id[id(x)] = c
            self.keep.append(x)
        return self.by_id[id(t)]

    def canon_value(self, v):
        """terms inside an ssa aggregate"""
        if isinstance(v, ssa.Agg):
            out = ssa.Agg()
            for k, x in v.items():
                out[k] = self.canon_value(x)
            return out
        return self.canon(v)

    def canon_result(self, res):
        """canonicalise everything a rule reads from an ssa Result (in place) and return the canon function"""
        res.ret = self.canon_value(res.ret)
        res.mem_at_ret = {k: self.canon_value(v) for k, v in res.mem_at_ret.items()}
        res.asserts = [(bb, kind, self.canon(c), e, [self.canon(o) for o in ops]) for (bb, kind, c, e, ops) in res.asserts]
        return self.canon
