"""Polynomial-term domain: field expressions (add / sub / mul / square / small constant multiple)
are normalised to multivariate polynomials with integer coefficients (optionally mod p), so two
ways of writing the same formula compare equal and a swapped operand or a wrong constant does not."""


class Poly(dict):
    """monomial (sorted tuple of (var, power)) -> coefficient"""

    @staticmethod
    def const(c):
        p = Poly()
        if c:
            p[()] = c
        return p

    @staticmethod
    def var(name):
        p = Poly()
        p[((name, 1),)] = 1
        return p

    def __add__(self, o):
        r = Poly(self)
        for m, c in o.items():
            v = r.get(m, 0) + c
            if v:
                r[m] = v
            else:
                r.pop(m, None)
        return r

    def __neg__(self):
        return Poly({m: -c for m, c in self.items()})

    def __sub__(self, o):
        return self + (-o)

    def __mul__(self, o):
        if isinstance(o, int):
            return Poly({m: c * o for m, c in self.items() if c * o})
        r = Poly()
        for m1, c1 in self.items():
            for m2, c2 in o.items():
                d = dict(m1)
                for v, e in m2:
                    d[v] = d.get(v, 0) + e
                m = tuple(sorted(d.items()))
                v = r.get(m, 0) + c1 * c2
                if v:
                    r[m] = v
                else:
                    r.pop(m, None)
        return r

    def mod(self, p):
        return Poly({m: c % p for m, c in self.items() if c % p})

    def __eq__(self, o):
        return dict(self) == dict(o)

    def __hash__(self):
        return hash(tuple(sorted(self.items())))

    def show(self):
        if not self:
            return "0"
        out = []
        for m, c in sorted(self.items()):
            mon = "*".join(v if e == 1 else "%s^%d" % (v, e) for v, e in m) or "1"
            out.append("%+d*%s" % (c, mon))
        return " ".join(out)
