"""Generic rule kinds over the MIR fact base (DESIGN §3).  Each returns data; the property
modules turn it into obligations with ctx.ok / ctx.fail."""
import re
from collections import defaultdict

from . import mir
from .mir import walk, strip_casts, fmt, const_val
from . import pred

# ------------------------------------------------------------------ field writes / MUSTSET


def self_field_of_place(pl, selfarg=1):
    """If place is (*self).f... or self.f... return the list of field names, else None."""
    if pl[0] != selfarg:
        return None
    names = []
    for p in pl[1]:
        if p == "*":
            continue
        if p[0] == "f":
            names.append(p[2] if p[2] != "" else str(p[1]))
        else:
            names.append("[]")
    return names


def field_writes(fn, selfarg=1):
    """All direct writes to fields of *self in fn: (bb, idx, [field names], rvalue)."""
    out = []
    for b in sorted(fn.reachable()):
        for i, s in enumerate(fn.stmts(b)):
            if s[0] == "=":
                names = self_field_of_place(s[1], selfarg)
                if names:
                    out.append((b, i, names, s[2]))
    return out


UNSET = "UNSET"
OTHER = "OTHER"


def last_write_values(prog, fn, field, selfarg=1, depth=0, memo=None):
    """Set of possible 'last value written to self.<field>' over all normal-return paths of fn.
    Values: ints (constants), UNSET (no write on some path), OTHER (non-constant write).
    Calls that receive &mut *self (or &mut self.<field>...) of crate-local functions are
    summarised recursively; unknown callees that can reach the field give OTHER."""
    memo = memo if memo is not None else {}
    key = (fn.id, field, selfarg)
    if key in memo:
        return memo[key]
    memo[key] = {UNSET}  # recursion guard
    succ, pred_, reach = fn.cfg()
    # per-block transfer
    def transfer(b, state):
        st = set(state)
        for i, s in enumerate(fn.stmts(b)):
            if s[0] == "=":
                names = self_field_of_place(s[1], selfarg)
                if names is not None and names[:1] == [field]:
                    if len(names) == 1:
                        v = s[2]
                        cv = const_val(v[1]) if v[0] == "use" else None
                        st = {cv if cv is not None else OTHER}
                    else:
                        st = {OTHER}
                elif names is not None and names == [] :
                    st = {OTHER}
                elif s[1][0] == selfarg and s[1][1] == ["*"]:
                    st = {OTHER}  # *self = ...
        t = fn.term(b)
        if t[0] == "call":
            c = mir.Call(fn, b, t)
            for ai, a in enumerate(c.args):
                e = fn.expr(a)
                tgt = _mut_self_target(e, selfarg)
                if tgt is None:
                    continue
                # callee gets &mut self (tgt == []) or &mut self.f.. (tgt = [names])
                if tgt and tgt[0] != field:
                    continue
                callee = prog.by_path.get(c.name())
                if callee and len(callee) == 1 and depth < 6 and not tgt:
                    sub = last_write_values(prog, callee[0], field, ai + 1, depth + 1, memo)
                    new = set()
                    for v in sub:
                        if v == UNSET:
                            new |= st
                        else:
                            new.add(v)
                    st = new
                else:
                    st = {OTHER} if tgt else (st | {OTHER} if _may_write(c) else st)
        return st

    IN = {b: set() for b in reach}
    IN[0] = {UNSET}
    work = [0]
    OUT = {}
    while work:
        b = work.pop()
        o = transfer(b, IN[b])
        if OUT.get(b) == o:
            continue
        OUT[b] = o
        tb = fn.term(b)
        refine = None
        if tb[0] == "sw":
            de = fn.expr(tb[1])
            if mir.is_self_field(de, field, selfarg):
                refine = tb
        for s in succ[b]:
            oo = o
            if refine is not None and UNSET in o:
                # on this edge the (so far unwritten) flag is known to equal the switch value
                vals = [v for v, bb2 in refine[2] if bb2 == s]
                if s != refine[3] and len(vals) == 1:
                    oo = (o - {UNSET}) | {vals[0]}
                elif s == refine[3] and not vals and refine[4] == "bool" and [v for v, _ in refine[2]] == [0]:
                    oo = (o - {UNSET}) | {1}
            n = IN[s] | oo
            if n != IN[s] or s not in OUT:
                IN[s] = n
                work.append(s)
    res = set()
    for b in fn.ret_blocks():
        res |= OUT.get(b, set())
    memo[key] = res
    return res


def _mut_self_target(e, selfarg):
    """If expression e is &mut *self or &mut (*self).a.b (or reborrows thereof) return the
    field-name list ([] for the whole object); else None."""
    while isinstance(e, tuple) and e[0] == "cast":
        e = e[2]
    if e == ("arg", selfarg):
        return []
    if isinstance(e, tuple) and e[0] == "ref":
        inner = e[2]
        base, names = mir.field_path(inner)
        if base == ("deref", ("arg", selfarg)) or base == ("arg", selfarg):
            return names
    return None


def _may_write(c):
    n = c.name()
    return not (n.startswith("core::") and ("::len" in n or "clone" in n.lower() or "::index" in n or "::min" in n))


# ------------------------------------------------------------------ call ordering


def call_sequence_min_progress(fn, pats, start=0, stops=None, argpred=None):
    """Forward must-analysis: minimum, over all paths from `start` to a normal return (or to one
    of the `stops` blocks, e.g. a loop head), of how many of the regex patterns `pats` have been
    matched *in order* by the calls executed.  argpred(i, call) may further restrict a match.
    Returns (min, per_end_block)."""
    rxs = [re.compile(p) for p in pats]
    succ, pred_, reach = fn.cfg()
    n = len(rxs)
    INF = n + 1
    stops = set(stops or ())
    IN = {b: INF for b in reach}
    IN[start] = 0
    work = [start]
    OUT = {}
    ends = {}
    first = True
    while work:
        b = work.pop()
        if b in stops and not (first and b == start):
            ends[b] = min(ends.get(b, INF), IN[b])
            continue
        first = False
        st = IN[b]
        t = fn.term(b)
        if t[0] == "call" and st < n:
            c = mir.Call(fn, b, t)
            nm = c.name()
            if (rxs[st].search(nm) or (c.callee and rxs[st].search(c.callee))) and (argpred is None or argpred(st, c)):
                st += 1
        if OUT.get(b) == st:
            continue
        OUT[b] = st
        if t[0] == "ret":
            ends[b] = min(ends.get(b, INF), st)
        for s2 in succ[b]:
            if st < IN[s2] or s2 not in OUT:
                IN[s2] = min(IN[s2], st)
                work.append(s2)
    return (min(ends.values()) if ends else INF), ends


def calls_between(fn, start, stops):
    """Calls reachable from block `start` without passing through any of `stops`."""
    succ = fn.cfg()[0]
    seen = set()
    st = [start]
    out = []
    while st:
        b = st.pop()
        if b in seen or b in stops:
            continue
        seen.add(b)
        t = fn.term(b)
        if t[0] == "call":
            out.append(mir.Call(fn, b, t))
        st.extend(succ[b])
    return out


def calls_matching(fn, pat):
    rx = re.compile(pat)
    return [c for c in fn.calls() if rx.search(c.name()) or (c.callee and rx.search(c.callee))]


def every_ret_path_passes(fn, blocks):
    """Every path from entry to a normal return passes through one of `blocks`."""
    succ, pred_, reach = fn.cfg()
    bl = set(blocks)
    seen = set()
    st = [0]
    while st:
        x = st.pop()
        if x in seen or x in bl:
            continue
        seen.add(x)
        if fn.term(x)[0] == "ret":
            return False
        st.extend(succ[x])
    return True


# ------------------------------------------------------------------ shift / rotate census

ROT_FNS = re.compile(r"core::num::<impl (u\d+|usize)>::rotate_(left|right)$")


def width_of(ty):
    m = re.match(r"[ui](\d+)$", ty or "")
    if m:
        return int(m.group(1))
    if ty in ("usize", "isize"):
        return 64
    return None


def rotation_census(fn):
    """Multiset (as sorted list) of rotate-right amounts of constant rotations in fn,
    normalising rotate_left(n) to rotate_right(width-n)."""
    out = []
    for c in fn.calls():
        m = ROT_FNS.search(c.name())
        if not m:
            continue
        w = width_of(m.group(1))
        e = fn.expr(c.args[1])
        if e[0] == "const":
            amt = e[1] % w
        elif e[0] == "kconst" or e[0] == "param":
            out.append(("sym", m.group(2), pred.canon(e, fn)))
            continue
        else:
            out.append(("dyn", m.group(2), fmt(e)))
            continue
        if m.group(2) == "left":
            amt = (w - amt) % w
        out.append(amt)
    return out


def shift_census(fn):
    """List of (op, amount) for Shl/Shr by constants in fn."""
    out = []
    for b in sorted(fn.reachable()):
        for s in fn.stmts(b):
            if s[0] == "=" and s[2][0] == "bin" and s[2][1] in ("Shl", "Shr", "ShlUnchecked", "ShrUnchecked"):
                e = fn.expr(s[2][3])
                e = strip_casts(e)
                if e[0] == "const":
                    out.append((s[2][1][:3], e[1]))
                else:
                    out.append((s[2][1][:3], None))
    return out


def int_constants(fn, types=None):
    """Multiset of integer literal constants used as operands in fn (excluding usize indices by default)."""
    out = []
    for b in sorted(fn.reachable()):
        for s in fn.stmts(b):
            if s[0] != "=":
                continue
            for o in _rv_operands(s[2]):
                if o[0] == "k" and isinstance(o[1].get("v"), int) and not isinstance(o[1].get("v"), bool):
                    if types is None or o[1].get("t") in types:
                        out.append((o[1].get("t"), o[1]["v"]))
        t = fn.term(b)
        if t[0] == "call":
            for o in t[2]:
                if o[0] == "k" and isinstance(o[1].get("v"), int) and not isinstance(o[1].get("v"), bool):
                    if types is None or o[1].get("t") in types:
                        out.append((o[1].get("t"), o[1]["v"]))
    return out


def _rv_operands(rv):
    k = rv[0]
    if k in ("use", "un", "rep"):
        return [rv[1]] if k != "un" else [rv[2]]
    if k == "cast":
        return [rv[2]]
    if k == "bin":
        return [rv[2], rv[3]]
    if k == "agg":
        return list(rv[2])
    return []


# ------------------------------------------------------------------ guards


def guard_facts(fn, bb):
    return pred.facts_at(fn, bb)


def asserts_in(fn):
    """(cond atoms that must hold to continue, bb) for every `assert!`-style branch whose failing
    side diverges: returns list of (atoms_on_continue, switch_bb, continue_bb)."""
    out = []
    rr = fn.ret_reaching()
    for b in sorted(fn.reachable()):
        t = fn.term(b)
        if t[0] != "sw":
            continue
        succs = fn.succs(b)
        dead = [s for s in succs if s not in rr]
        live = [s for s in succs if s in rr]
        if dead and len(live) == 1:
            e = fn.expr(t[1])
            # truth value on the live edge
            vals = [v for v, bb2 in t[2] if bb2 == live[0]]
            if t[4] == "bool":
                truth = bool(vals[0]) if vals else True
                atoms = pred.atoms_of(e, truth, fn)
                out.append((atoms, b, live[0], e, truth))
            else:
                out.append((None, b, live[0], e, vals))
    return out


# ------------------------------------------------------------------ canonical body hash (siblings)


def canon_body(fn, abstract=None):
    """A canonical, local-number-free rendering of fn's effects, used to compare sibling
    implementations.  Per reachable block (in RPO): the multiset of effects (stores to non-temp
    places, calls, terminator condition), each as an expression tree over arguments, fields and
    named variables.  `abstract(str)->str` rewrites type/const names (the whitelisted delta)."""
    abstract = abstract or (lambda s: s)
    order = fn.rpo()
    idx = {b: i for i, b in enumerate(order)}
    lines = []
    named = {}

    def nm(e):
        s = pred.canon(e, fn)
        return abstract(s)

    for b in order:
        eff = []
        for s in fn.stmts(b):
            if s[0] != "=":
                continue
            pl = s[1]
            tmp = not pl[1] and fn.single_def(pl[0]) is not None
            if tmp:
                continue
            lhs = nm(fn.place_expr(pl)) if pl[1] else ("v:%s" % fn.dbg.get(pl[0], "_%d" % pl[0]))
            rhs = nm(fn.rvalue_expr(s[2]))
            eff.append("%s := %s" % (lhs, rhs))
        t = fn.term(b)
        if t[0] == "call":
            c = mir.Call(fn, b, t)
            dest = ""
            if t[3][1] or fn.single_def(t[3][0]) is None:
                dest = (nm(fn.place_expr(t[3])) if t[3][1] else "v:%s" % fn.dbg.get(t[3][0], "_%d" % t[3][0])) + " := "
            eff.append("%scall %s(%s) -> %s" % (dest, abstract(c.name()), ", ".join(nm(fn.expr(a)) for a in c.args), idx.get(t[4], "!")))
        elif t[0] == "sw":
            eff.append("switch %s [%s] else %s" % (nm(fn.expr(t[1])), ",".join("%d->%s" % (v, idx.get(bb2, "?")) for v, bb2 in t[2]), idx.get(t[3], "?")))
        elif t[0] == "assert":
            eff.append("assert %s -> %s" % (t[3], idx.get(t[4], "?")))
        elif t[0] == "goto":
            eff.append("goto %s" % idx.get(t[1], "?"))
        elif t[0] == "drop":
            eff.append("goto %s" % idx.get(t[2], "?"))
        else:
            eff.append(t[0])
        lines.append("B%d: " % idx[b] + " ; ".join(eff))
    return lines


# ------------------------------------------------------------------ slice windows

class _IndexFn:
    """Matches the resolved names of the slice / array / Vec Index and IndexMut implementations."""
    def search(self, name):
        return ("ops::Index" in name) and (name.endswith("::index") or name.endswith("::index_mut"))


INDEX_FN = _IndexFn()


def window(fn, e):
    """Decode a slice expression:  returns (base_canon, start, end) where start/end are linear
    forms ((coeffs...), const) or None for an open end, or None if e is not a recognised window.
    A plain reference to a buffer is (base, 0-form, None)."""
    e0 = e
    while isinstance(e, tuple) and e[0] in ("cast",) and e[1].startswith("PointerCoercion"):
        e = e[2]
    while isinstance(e, tuple) and e[0] == "ref":
        e = e[2]
    while isinstance(e, tuple) and e[0] == "deref":
        e = e[1]
    while isinstance(e, tuple) and e[0] == "ref":
        e = e[2]
    if isinstance(e, tuple) and e[0] == "call" and INDEX_FN.search(e[1]) and len(e[2]) == 2:
        base, rng = e[2]
        inner = window(fn, base)
        if rng[0] == "agg":
            kind = str(rng[1])
            zero = ((), 0)
            def L(x):
                l, c = pred.lin(x, fn)
                return (tuple(sorted(l.items())), c)
            if "RangeFull" in kind:
                st, en = zero, None
            elif "RangeFrom" in kind:
                st, en = L(rng[2][0]), None
            elif "RangeTo" in kind and "Inclusive" not in kind:
                st, en = zero, L(rng[2][0])
            elif "core::ops::Range" in kind and len(rng[2]) == 2:
                st, en = L(rng[2][0]), L(rng[2][1])
            else:
                return None
            if inner is None:
                return None
            b, ist, ien = inner
            if ist != ((), 0):
                # nested window: offsets add (only constants supported)
                if not ist[0] and not st[0]:
                    st = ((), st[1] + ist[1])
                    if en is not None and not en[0]:
                        en = ((), en[1] + ist[1])
                else:
                    return None
            return (b, st, en)
        return None
    if isinstance(e, tuple) and e[0] == "call" and (e[1] in pred.TRANSPARENT_CALLS or e[1].endswith("::as_mut") or e[1].endswith("as core::ops::DerefMut>::deref_mut")):
        return window(fn, e[2][0])
    if isinstance(e, tuple) and e[0] == "call" and "try_from" in e[1] or (isinstance(e, tuple) and e[0] == "call" and e[1].endswith("::unwrap")):
        return window(fn, e[2][0])
    return (pred.canon(e, fn), ((), 0), None)


# ------------------------------------------------------------------ iterator loops


def iter_loops(fn):
    """Recognise `for pat in <iterator expr>` loops: returns a list of dicts with the `next` call,
    the adaptor chain (callee names from the iterator source to next), the canonical sources,
    the Some / None successor blocks and the set of exit edges from the body."""
    out = []
    for c in fn.calls():
        if not (c.callee and c.callee.endswith("Iterator::next")) and not c.name().endswith("::next"):
            continue
        it = fn.expr(c.args[0])
        var = None
        for s in walk(it):
            if s[0] == "var":
                var = s[1]
        chain = []
        sources = []
        root = it
        if var is not None:
            ds = [d for d in fn.defs().get(var, []) if d[2]]
            if len(ds) == 1 and ds[0][1] != "t":
                root = fn.rvalue_expr(fn.blocks[ds[0][0]]["s"][ds[0][1]][2])
            elif len(ds) == 1:
                root = fn.local_expr(var) if fn.single_def(var) else ("call", mir.Call(fn, ds[0][0], fn.term(ds[0][0])).name(), tuple(fn.expr(a) for a in mir.Call(fn, ds[0][0], fn.term(ds[0][0])).args), (ds[0][0],))
        for s in walk(root):
            if s[0] == "call":
                chain.append(s[1])
            elif s[0] in ("arg", "field", "var", "kconst") :
                pass
        for s in walk(root):
            if s[0] == "call" and (s[1].endswith("::iter") or s[1].endswith("::iter_mut") or s[1].endswith("::chunks") or s[1].endswith("chunks_mut") or s[1].endswith("chunks_exact") or s[1].endswith("chunks_exact_mut")):
                sources.append((s[1].split("::")[-1], pred.canon(s[2][0], fn)))
            if s[0] == "agg" and "core::ops::Range" in str(s[1]):
                sources.append(("range", tuple(pred.canon(a, fn) for a in s[2])))
        nb = c.target
        some = none = None
        if nb is not None and fn.term(nb)[0] == "sw":
            tt = fn.term(nb)
            for v, bb in tt[2]:
                if v == 1:
                    some = bb
                elif v == 0:
                    none = bb
        body = set()
        if some is not None:
            succ = fn.cfg()[0]
            st = [some]
            while st:
                x = st.pop()
                if x in body or x == c.bb:
                    continue
                body.add(x)
                st.extend(succ[x])
        exits = []
        if some is not None and none is not None:
            # blocks reachable from `some` without passing the next-call block, that cannot get back to it
            for x in sorted(body):
                if not fn.reaches(x, c.bb) and x in fn.ret_reaching():
                    exits.append(x)
        out.append({"call": c, "chain": chain, "sources": sources, "some": some, "none": none, "body": body, "early_exits": exits, "root": root})
    return out


def var_defs(fn, local):
    """Expressions of every whole-place definition of a (multi-def) local."""
    out = []
    for b, i, w in fn.defs().get(local, []):
        if not w:
            out.append((b, ("partial",)))
        elif i == "t":
            c = mir.Call(fn, b, fn.term(b))
            out.append((b, ("call", c.name(), tuple(fn.expr(a) for a in c.args), (b,))))
        else:
            out.append((b, fn.rvalue_expr(fn.blocks[b]["s"][i][2])))
    return out


# ------------------------------------------------------------------ const-generic sweep


def _eval_param_expr(e, env, fn=None):
    """Evaluate an expression that depends only on const-generic params / constants / leaves whose
    canonical name is bound in env (e.g. 'len(arg1)'), else None."""
    if e[0] == "const":
        return e[1]
    if e[0] == "param":
        return env.get(e[1])
    if fn is not None and e[0] in ("call", "un", "field", "arg", "deref", "var"):
        k = pred.canon(e, fn)
        if k in env:
            return env[k]
        if e[0] == "call" and e[1].startswith("core::mem::size_of::<"):
            l, c = pred.lin(e, fn)
            if not l:
                return c
    if e[0] == "cast":
        return _eval_param_expr(e[2], env, fn)
    if e[0] == "un" and e[1] == "Not":
        v = _eval_param_expr(e[2], env, fn)
        return None if v is None else int(not v)
    if e[0] == "call" and fn is not None and (e[1].endswith("::is_empty")):
        v = env.get("len(%s)" % pred.canon(e[2][0], fn))
        return None if v is None else int(v == 0)
    if e[0] == "bin":
        a = _eval_param_expr(e[2], env, fn)
        b = _eval_param_expr(e[3], env, fn)
        if a is None or b is None:
            return None
        op = e[1]
        try:
            return {"Eq": lambda: int(a == b), "Ne": lambda: int(a != b), "Lt": lambda: int(a < b), "Le": lambda: int(a <= b), "Gt": lambda: int(a > b), "Ge": lambda: int(a >= b),
                    "Add": lambda: a + b, "Sub": lambda: a - b, "Mul": lambda: a * b, "Div": lambda: a // b if b else None, "Rem": lambda: a % b if b else None,
                    "BitAnd": lambda: a & b, "BitOr": lambda: a | b, "BitXor": lambda: a ^ b, "Shl": lambda: a << b, "Shr": lambda: a >> b}[op]()
        except KeyError:
            return None
    return None


def reachable_under(fn, env, prog=None, depth=3, memo=None):
    """Blocks reachable from entry when const-generic parameters take the values in env (branches
    whose condition depends only on those parameters are decided, all others taken both ways).
    With `prog`, a call to a crate function that cannot return under the induced argument values
    (it panics on every path) does not continue to its return block."""
    succ = fn.cfg()[0]
    seen = set()
    st = [0]
    while st:
        b = st.pop()
        if b in seen:
            continue
        seen.add(b)
        t = fn.term(b)
        if t[0] == "sw":
            v = _eval_param_expr(fn.expr(t[1]), env, fn)
            if v is not None:
                tgt = t[3]
                for val, bb in t[2]:
                    if val == v:
                        tgt = bb
                st.append(tgt)
                continue
        if t[0] == "assert":
            v = _eval_param_expr(fn.expr(t[1]), env, fn)
            if v is not None and bool(v) != bool(t[2]):
                continue
        if t[0] == "call" and prog is not None and depth > 0:
            c = mir.Call(fn, b, t)
            if c.local and c.target is not None:
                cal = prog.fn_opt(c.name())
                if cal is not None and not can_return(prog, cal, _callee_env(fn, c, cal, env), depth - 1, memo):
                    continue
        st.extend(succ[b])
    return seen


def _callee_env(fn, c, cal, env):
    from . import pred
    env2 = {}
    gens = [g[0] for g in (cal.raw.get("generics") or []) if g[1] == "Const"]
    gas = [g for g in (c.ga or [])]
    cg = [g for g in gas if isinstance(g, (int, str))]
    for name, g in zip(gens, cg[-len(gens):] if gens else []):
        if isinstance(g, int):
            env2[name] = g
        elif isinstance(g, str) and g.lstrip("-").isdigit():
            env2[name] = int(g)
        elif g in env:
            env2[name] = env[g]
    for i, a in enumerate(c.args):
        e = fn.expr(a)
        v = _eval_param_expr(e, env, fn)
        if v is not None:
            env2["arg%d" % (i + 1)] = v
            continue
        cs = pred.canon(e, fn)
        if cs == "K()":
            env2["len(arg%d)" % (i + 1)] = 0
        elif "len(%s)" % cs in env:
            env2["len(arg%d)" % (i + 1)] = env["len(%s)" % cs]
    return env2


def can_return(prog, fn, env, depth=3, memo=None):
    if memo is None:
        memo = {}
    k = (fn.path, tuple(sorted(env.items())))
    if k in memo:
        return memo[k]
    memo[k] = True  # recursion: optimistic
    r = reachable_under(fn, env, prog, depth, memo)
    memo[k] = any(fn.term(b)[0] == "ret" for b in r)
    return memo[k]


def accepted_param_values(fn, param, candidates, extra=None, prog=None):
    """Values of const-generic `param` (or of a leaf such as 'len(arg1)') for which fn can return normally
    (with `prog`: and none of the crate functions it must call rejects the induced arguments)."""
    ok = []
    memo = {}
    for v in candidates:
        env = {param: v}
        if extra:
            env.update(extra)
        r = reachable_under(fn, env, prog, 3, memo)
        if any(fn.term(b)[0] == "ret" for b in r):
            ok.append(v)
    return ok


def const_index(fn, proj):
    """Constant value of an index projection ['i', local] / ['c', n, ...], else None."""
    if proj[0] == "c":
        return proj[1]
    if proj[0] == "i":
        e = fn.local_expr(proj[1])
        if e[0] == "const":
            return e[1]
    return None


def array_stores(fn, local):
    """Stores  local[<const idx>] = value  (also through one field, e.g. n.0[i]): list of (bb, idx, value_expr)."""
    out = []
    for b in sorted(fn.reachable()):
        for s in fn.stmts(b):
            if s[0] == "=" and s[1][0] == local and s[1][1]:
                pr = s[1][1]
                last = pr[-1]
                if isinstance(last, list) and last[0] in ("i", "c"):
                    out.append((b, const_index(fn, last), fn.rvalue_expr(s[2])))
    return out
