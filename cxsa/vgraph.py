"""Bit-precise value graphs with canonical normal forms.

A value is a tuple of bits; a bit is a pair (tid, i): bit i of interned node tid, or the constants Z / O.
Node kinds
  ("in", name, w)              input word
  ("add", w, items, c)         modular linear combination: sorted ((lane, coefficient), ...) of non-sum lanes plus a constant
  ("lin", 1, atoms, c)         parity of a set of atom bits (xor c)           -- canonical for linear functions
  ("bf", 1, tt, atoms)         Boolean function of <= K atom bits by truth table -- canonical for small supports
  ("op", w, name, args)        uninterpreted operation
Every Boolean combination (and/or/xor/not, any formula) of at most K base atoms has ONE representation, whatever
formula produced it: Ch written as g ^ (e & (f ^ g)) or (e & f) | (!e & g) is the same node; xor chains of any
association are the same "lin" node.  Beyond K atoms the structure of the computation is kept (hash-consed), which is
deterministic but not canonical; arithmetic nodes are natural cut points in ARX code.  Routing (shifts, rotations,
byte shuffles) only re-indexes bit tuples.  Nothing is evaluated on concrete data: equality of two computations is
equality of their bit tuples."""

Z = (-1, 0)
O = (-1, 1)
K = 6
LCAP = 1 << 30


class TermBank:
    def __init__(self):
        self.nodes = {}
        self.defs = []
        self._supp = {}
        self._c2 = {}
        self._pure = {}

    def intern(self, key):
        i = self.nodes.get(key)
        if i is None:
            i = len(self.defs)
            self.nodes[key] = i
            self.defs.append(key)
        return i

    def inp(self, name, w):
        t = self.intern(("in", name, w))
        return tuple((t, i) for i in range(w))

    def const(self, v, w):
        return tuple(O if (v >> i) & 1 else Z for i in range(w))

    def width(self, t):
        d = self.defs[t]
        return d[2] if d[0] == "in" else d[1]

    def whole(self, lane):
        t = lane[0][0]
        if t < 0 or len(lane) != self.width(t):
            return None
        for i, b in enumerate(lane):
            if b != (t, i):
                return None
        return t

    def is_const(self, lane):
        return all(b[0] == -1 for b in lane)

    def cval(self, lane):
        return sum((1 << i) for i, b in enumerate(lane) if b == O)

    # ------------------------------------------------------------------ Boolean layer (single bits)
    def kind(self, b):
        return None if b[0] < 0 else self.defs[b[0]][0]

    def base_support(self, b):
        """frozenset of base atoms (bits that are not lin/bf nodes) the bit depends on, or None if more than K"""
        if b[0] < 0:
            return frozenset()
        r = self._supp.get(b, 0)
        if r != 0:
            return r
        d = self.defs[b[0]]
        if d[0] in ("lin", "bf"):
            acc = set()
            res = None
            for a in d[2 if d[0] == "lin" else 3]:
                s = self.base_support(a)
                if s is None:
                    acc = None
                    break
                acc |= s
                if len(acc) > K:
                    acc = None
                    break
            res = frozenset(acc) if acc is not None else None
        else:
            res = frozenset((b,))
        self._supp[b] = res
        return res

    def evalbit(self, b, asg, memo):
        if b[0] < 0:
            return b[1]
        if b in asg:
            return asg[b]
        v = memo.get(b)
        if v is not None:
            return v
        d = self.defs[b[0]]
        if d[0] == "lin":
            v = d[3]
            for a in d[2]:
                v ^= self.evalbit(a, asg, memo)
        elif d[0] == "bf":
            idx = 0
            for j, a in enumerate(d[3]):
                idx |= self.evalbit(a, asg, memo) << j
            v = (d[2] >> idx) & 1
        else:
            raise KeyError(b)
        memo[b] = v
        return v

    def from_tt(self, tt, atoms):
        """canonical bit for the function with truth table tt over the sorted atom tuple"""
        atoms = list(atoms)
        k = len(atoms)
        # drop irrelevant variables
        j = 0
        while j < k:
            dep = False
            for idx in range(1 << k):
                if not (idx >> j) & 1:
                    if ((tt >> idx) & 1) != ((tt >> (idx | (1 << j))) & 1):
                        dep = True
                        break
            if dep:
                j += 1
                continue
            ntt = 0
            pos = 0
            for idx in range(1 << k):
                if not (idx >> j) & 1:
                    ntt |= ((tt >> idx) & 1) << pos
                    pos += 1
            tt = ntt
            atoms.pop(j)
            k -= 1
        if k == 0:
            return O if tt & 1 else Z
        # parity (+const)?
        c = tt & 1
        lin = True
        for idx in range(1 << k):
            if ((tt >> idx) & 1) != (c ^ (bin(idx).count("1") & 1)):
                lin = False
                break
        if lin:
            return self.mk_lin(atoms, c)
        return (self.intern(("bf", 1, tt, tuple(atoms))), 0)

    def mk_lin(self, atoms, c):
        atoms = sorted(atoms)
        if not atoms:
            return O if c else Z
        if len(atoms) == 1 and not c:
            return atoms[0]
        return (self.intern(("lin", 1, tuple(atoms), c)), 0)

    def lin_members(self, b):
        """(set of member atoms, const) viewing b as a parity"""
        if b[0] < 0:
            return set(), b[1]
        d = self.defs[b[0]]
        if d[0] == "lin":
            return set(d[2]), d[3]
        return {b}, 0

    def pure(self, b):
        """b is a constant, a base atom, or a parity of base atoms only"""
        if b[0] < 0:
            return True
        r = self._pure.get(b[0])
        if r is None:
            d = self.defs[b[0]]
            if d[0] == "bf":
                r = False
            elif d[0] == "lin":
                r = all(self.defs[x[0]][0] not in ("bf", "lin") for x in d[2])
            else:
                r = True
            self._pure[b[0]] = r
        return r

    def comb2(self, f, a, b):
        """bit = f(a, b), f given as 4-bit truth table indexed by (a | b << 1)"""
        key = (f, a, b)
        r = self._c2.get(key)
        if r is not None:
            return r
        r = self._comb2(f, a, b)
        self._c2[key] = r
        return r

    def _comb2(self, f, a, b):
        if a[0] < 0 and b[0] < 0:
            return O if (f >> (a[1] | (b[1] << 1))) & 1 else Z
        if f == 0b0110 or f == 0b1001:
            # parity of base atoms: closed under xor, the symmetric difference is already the normal form
            if self.pure(a) and self.pure(b):
                ma, ca = self.lin_members(a)
                mb, cb = self.lin_members(b)
                return self.mk_lin(ma ^ mb, ca ^ cb ^ (1 if f == 0b1001 else 0))
        sa, sb = self.base_support(a), self.base_support(b)
        if sa is not None and sb is not None and len(sa | sb) <= K:
            atoms = sorted(sa | sb)
            tt = 0
            for idx in range(1 << len(atoms)):
                asg = {x: (idx >> j) & 1 for j, x in enumerate(atoms)}
                memo = {}
                va = self.evalbit(a, asg, memo)
                vb = self.evalbit(b, asg, memo)
                tt |= ((f >> (va | (vb << 1))) & 1) << idx
            return self.from_tt(tt, atoms)
        # large support: structural
        if f == 0b0110 or f == 0b1001:
            ma, ca = self.lin_members(a)
            mb, cb = self.lin_members(b)
            m = ma ^ mb
            c = ca ^ cb ^ (1 if f == 0b1001 else 0)
            if len(m) <= LCAP:
                return self.mk_lin(m, c)
            return self.mk_lin([a, b] if a != b else [], 1 if f == 0b1001 else 0)
        # constants on one side
        if a[0] < 0 or b[0] < 0:
            cv, x, first = (a[1], b, True) if a[0] < 0 else (b[1], a, False)
            f0 = (f >> ((cv | (0 << 1)) if first else (0 | (cv << 1)))) & 1
            f1 = (f >> ((cv | (1 << 1)) if first else (1 | (cv << 1)))) & 1
            if f0 == f1:
                return O if f0 else Z
            if f0 == 0:
                return x
            mx, cx = self.lin_members(x)
            return self.mk_lin(mx, cx ^ 1)
        if a == b:
            f0, f1 = f & 1, (f >> 3) & 1
            if f0 == f1:
                return O if f0 else Z
            if f0 == 0:
                return a
            mx, cx = self.lin_members(a)
            return self.mk_lin(mx, cx ^ 1)
        # order-normalise commutative functions
        x, y, ff = a, b, f
        if y < x:
            x, y = y, x
            ff = (f & 0b1001) | ((f >> 1) & 1) << 2 | ((f >> 2) & 1) << 1
        return (self.intern(("bf", 1, ff, (x, y))), 0)

    # ------------------------------------------------------------------ lane layer
    def xor(self, a, b):
        return tuple(self.comb2(0b0110, x, y) for x, y in zip(a, b))

    def or_(self, a, b):
        return tuple(self.comb2(0b1110, x, y) for x, y in zip(a, b))

    def and_(self, a, b):
        return tuple(self.comb2(0b1000, x, y) for x, y in zip(a, b))

    def andnot(self, a, b):
        """(!a) & b"""
        return tuple(self.comb2(0b0100, x, y) for x, y in zip(a, b))

    def not_(self, a):
        return tuple(self.comb2(0b0110, x, O) for x in a)

    def add(self, a, b, kb=1):
        """a + kb * b  modulo 2^w.  Sums are kept as canonical LINEAR COMBINATIONS: a sorted tuple of (lane, coefficient)
        pairs plus a constant, so the normal form is independent of association, order and sharing, and its size is bounded
        by the number of distinct non-sum lanes (plain flattening of nested sums is exponential for SHA-2's recurrences)."""
        w = len(a)
        mask = (1 << w) - 1
        terms = {}
        c = 0
        for l, k in ((a, 1), (b, kb)):
            t = self.whole(l)
            if t is not None and self.defs[t][0] == "add":
                d = self.defs[t]
                for lane, kk in d[2]:
                    terms[lane] = (terms.get(lane, 0) + kk * k) & mask
                c = (c + d[3] * k) & mask
            elif self.is_const(l):
                c = (c + self.cval(l) * k) & mask
            else:
                # a left-shifted whole lane is 2^s times that lane (x + x is written for x << 1 in rotation code)
                s_ = 0
                while s_ < w and l[s_] == Z:
                    s_ += 1
                if 0 < s_ < w:
                    t0 = l[s_][0]
                    if t0 >= 0 and self.width(t0) == w and all(l[s_ + i] == (t0, i) for i in range(w - s_)):
                        base = tuple((t0, i) for i in range(w))
                        if self.defs[t0][0] == "add":
                            d = self.defs[t0]
                            for lane, kk in d[2]:
                                terms[lane] = (terms.get(lane, 0) + kk * k * (1 << s_)) & mask
                            c = (c + d[3] * k * (1 << s_)) & mask
                        else:
                            terms[base] = (terms.get(base, 0) + k * (1 << s_)) & mask
                        continue
                terms[l] = (terms.get(l, 0) + k) & mask
        items = tuple(sorted((l, k) for l, k in terms.items() if k))
        if not items:
            return self.const(c, w)
        if len(items) == 1 and c == 0 and items[0][1] & (items[0][1] - 1) == 0:
            return self.shl(items[0][0], items[0][1].bit_length() - 1)     # 2^s * x alone is pure routing
        t = self.intern(("add", w, items, c))
        return tuple((t, i) for i in range(w))

    def sub(self, a, b):
        return self.add(a, b, kb=(1 << len(a)) - 1)

    def rotr(self, a, k):
        k %= len(a)
        return a[k:] + a[:k]

    def rotl(self, a, k):
        return self.rotr(a, len(a) - (k % len(a)))

    def shr(self, a, k):
        return a[k:] + (Z,) * min(k, len(a)) if k < len(a) else (Z,) * len(a)

    def shl(self, a, k):
        return ((Z,) * k + a[: len(a) - k]) if k < len(a) else (Z,) * len(a)

    def pred(self, kind, a, b):
        """1-bit predicate node over two lanes: eq / carry (of a+b) are commutative (operands sorted), ult / borrow are not"""
        if kind in ("eq", "carry") and b < a:
            a, b = b, a
        if kind == "eq" and a == b:
            return (O,)
        if self.is_const(a) and self.is_const(b):
            x, y, w = self.cval(a), self.cval(b), len(a)
            v = {"eq": x == y, "carry": x + y >= (1 << w), "ult": x < y, "borrow": x < y}[kind]
            return (O if v else Z,)
        if kind == "borrow":
            kind = "ult"
        return self.opaque("p:" + kind, 1, (a, b))

    def opaque(self, name, w, args):
        t = self.intern(("op", w, name, tuple(args)))
        return tuple((t, i) for i in range(w))

    # ------------------------------------------------------------------ display
    def showbit(self, b, depth=2):
        if b[0] < 0:
            return str(b[1])
        d = self.defs[b[0]]
        if d[0] == "in":
            return "%s.%d" % (d[1], b[1])
        if depth <= 0:
            return "#%d.%d" % b
        if d[0] == "lin":
            return "(" + " ^ ".join([self.showbit(x, depth - 1) for x in d[2]] + (["1"] if d[3] else [])) + ")"
        if d[0] == "bf":
            return "f%x(%s)" % (d[2], ",".join(self.showbit(x, depth - 1) for x in d[3]))
        return "#%d.%d" % b

    def show(self, lane, depth=2):
        t = self.whole(lane)
        if t is not None:
            d = self.defs[t]
            if d[0] == "in":
                return d[1]
            if d[0] == "add":
                return "add(%s%s)" % (", ".join((("%d*" % k if k != 1 else "") + (self.show(x, depth - 1) if depth > 0 else "…")) for x, k in d[2][:8]) + (", …" if len(d[2]) > 8 else ""), (", %#x" % d[3]) if d[3] else "")
            return "%s#%d" % (d[0], t)
        if self.is_const(lane):
            return hex(self.cval(lane))
        w = len(lane)
        for k in range(1, w):
            r = lane[w - k:] + lane[: w - k]
            if self.whole(r) is not None:
                return "rotr(%s,%d)" % (self.show(r, depth), k)
        return "[" + " ".join(self.showbit(b, depth) for b in lane[:3]) + " …x%d]" % w
