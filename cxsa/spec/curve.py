"""Specification oracle for Curve25519 / Ed25519 constants, derived from the mathematical definitions
(RFC 7748, RFC 8032) with Python integers — nothing here is copied from the code under test."""
P = 2 ** 255 - 19
L = 2 ** 252 + 27742317777372353535851937790883648493
D = (-121665 * pow(121666, P - 2, P)) % P
D2 = (2 * D) % P
SQRTM1 = pow(2, (P - 1) // 4, P)
A24 = 121666
MU = 2 ** 512 // L


def inv(x):
    return pow(x, P - 2, P)


def recover_x(y, sign):
    x2 = (y * y - 1) * inv(D * y * y + 1) % P
    x = pow(x2, (P + 3) // 8, P)
    if (x * x - x2) % P != 0:
        x = x * SQRTM1 % P
    assert (x * x - x2) % P == 0
    if x & 1 != sign:
        x = P - x
    return x


BY = 4 * inv(5) % P
BX = recover_x(BY, 0)
B = (BX, BY)
IDENT = (0, 1)


def add(p1, p2):
    x1, y1 = p1
    x2, y2 = p2
    k = D * x1 * x2 * y1 * y2 % P
    x3 = (x1 * y2 + x2 * y1) * inv(1 + k) % P
    y3 = (y1 * y2 + x1 * x2) * inv(1 - k) % P
    return (x3, y3)


def mul(k, pt):
    r = IDENT
    q = pt
    while k:
        if k & 1:
            r = add(r, q)
        q = add(q, q)
        k >>= 1
    return r


def precomp(pt):
    """(y+x, y-x, 2dxy) representation used by the precomputed tables."""
    x, y = pt
    return ((y + x) % P, (y - x) % P, (2 * D * x * y) % P)


def fe64_value(limbs):
    return sum(int(l) << (51 * i) for i, l in enumerate(limbs)) % P


FE32_SHIFTS = [0, 26, 51, 77, 102, 128, 153, 179, 204, 230]


def fe32_value(limbs):
    return sum(int(l) << s if l >= 0 else -((-int(l)) << s) for l, s in zip(limbs, FE32_SHIFTS)) % P


def ge_base_table():
    """GE_BASE[i][j] = (j+1) * 256^i * B   for i in 0..32, j in 0..8"""
    out = []
    base = B
    for i in range(32):
        row = []
        acc = base
        for j in range(8):
            row.append(precomp(acc))
            acc = add(acc, base)
        out.append(row)
        # next base = 256 * base
        for _ in range(8):
            base = add(base, base)
    return out


def bi_table():
    """BI[j] = (2j+1) * B"""
    b2 = add(B, B)
    out = []
    acc = B
    for j in range(8):
        out.append(precomp(acc))
        acc = add(acc, b2)
    return out


def scalar64_limbs(x):
    """five 56-bit limbs (scalar64's unsaturated representation)"""
    return [(x >> (56 * i)) & ((1 << 56) - 1) for i in range(4)] + [x >> 224]
