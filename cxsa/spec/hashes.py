"""Specification oracle for hash-function constants, derived from their definitions with integer
arithmetic (FIPS 180-4, FIPS 202, RFC 7693, RIPEMD-160).  SHA-512/t IVs need SHA-512 itself by the
FIPS procedure, so those two are FIPS table literals (stated as such)."""
from math import isqrt


def primes(n):
    out = []
    k = 2
    while len(out) < n:
        if all(k % p for p in out if p * p <= k):
            out.append(k)
        k += 1
    return out


def icbrt(n):
    """floor cube root by Newton iteration on integers"""
    if n < 8:
        return 1 if n else 0
    x = 1 << ((n.bit_length() + 2) // 3)
    while True:
        y = (2 * x + n // (x * x)) // 3
        if y >= x:
            break
        x = y
    while x ** 3 > n:
        x -= 1
    while (x + 1) ** 3 <= n:
        x += 1
    return x


def frac_sqrt(p, bits):
    return isqrt(p << (2 * bits)) & ((1 << bits) - 1)


def frac_cbrt(p, bits):
    return icbrt(p << (3 * bits)) & ((1 << bits) - 1)


PR = primes(80)
H256 = [frac_sqrt(p, 32) for p in PR[:8]]
H512 = [frac_sqrt(p, 64) for p in PR[:8]]
H384 = [frac_sqrt(p, 64) for p in PR[8:16]]
H224 = [frac_sqrt(p, 64) & 0xffffffff for p in PR[8:16]]
K32 = [frac_cbrt(p, 32) for p in PR[:64]]
K64 = [frac_cbrt(p, 64) for p in PR[:80]]
def _sha512_compress(h, block):
    M64 = (1 << 64) - 1
    rotr = lambda x, n: ((x >> n) | (x << (64 - n))) & M64
    w = [int.from_bytes(block[8 * i:8 * i + 8], "big") for i in range(16)]
    for t in range(16, 80):
        s0 = rotr(w[t - 15], 1) ^ rotr(w[t - 15], 8) ^ (w[t - 15] >> 7)
        s1 = rotr(w[t - 2], 19) ^ rotr(w[t - 2], 61) ^ (w[t - 2] >> 6)
        w.append((w[t - 16] + s0 + w[t - 7] + s1) & M64)
    a, b, c, d, e, f, g, hh = h
    for t in range(80):
        S1 = rotr(e, 14) ^ rotr(e, 18) ^ rotr(e, 41)
        ch = (e & f) ^ (~e & M64 & g)
        t1 = (hh + S1 + ch + K64[t] + w[t]) & M64
        S0 = rotr(a, 28) ^ rotr(a, 34) ^ rotr(a, 39)
        mj = (a & b) ^ (a & c) ^ (b & c)
        t2 = (S0 + mj) & M64
        hh, g, f, e, d, c, b, a = g, f, e, (d + t1) & M64, c, b, a, (t1 + t2) & M64
    return [(x + y) & M64 for x, y in zip(h, (a, b, c, d, e, f, g, hh))]


def sha512_t_iv(t):
    """FIPS 180-4 5.3.6: IV of SHA-512/t = SHA-512 with H0 ^ a5a5.. applied to the string "SHA-512/t"."""
    h = [x ^ 0xa5a5a5a5a5a5a5a5 for x in H512]
    msg = b"SHA-512/%d" % t
    blk = msg + b"\x80" + b"\x00" * (128 - len(msg) - 1 - 16) + (8 * len(msg)).to_bytes(16, "big")
    return _sha512_compress(h, blk)


H512_224 = sha512_t_iv(224)
H512_256 = sha512_t_iv(256)
# SHA-1 / RIPEMD-160 / MD4-family chaining IV: byte sequences 01 23 45 67 ... read little-endian, plus c3d2e1f0
SHA1_H = [0x67452301, 0xEFCDAB89, 0x98BADCFE, 0x10325476, 0xC3D2E1F0]
SHA1_K = [isqrt(k << 60) & 0xffffffff for k in (2, 3, 5, 10)]          # floor(2^30 * sqrt(k))
RMD_KL = [0] + [isqrt(k << 60) & 0xffffffff for k in (2, 3, 5, 7)]
RMD_KR = [icbrt(k << 90) & 0xffffffff for k in (2, 3, 5, 7)] + [0]    # floor(2^30 * cbrt(k))
BLAKE2B_IV = H512
BLAKE2S_IV = H256
SIGMA = [
    [0, 1, 2, 3, 4, 5, 6, 7, 8, 9, 10, 11, 12, 13, 14, 15],
    [14, 10, 4, 8, 9, 15, 13, 6, 1, 12, 0, 2, 11, 7, 5, 3],
    [11, 8, 12, 0, 5, 2, 15, 13, 10, 14, 3, 6, 7, 1, 9, 4],
    [7, 9, 3, 1, 13, 12, 11, 14, 2, 6, 5, 10, 4, 0, 15, 8],
    [9, 0, 5, 7, 2, 4, 10, 15, 14, 1, 11, 12, 6, 8, 3, 13],
    [2, 12, 6, 10, 0, 11, 8, 3, 4, 13, 7, 5, 15, 14, 1, 9],
    [12, 5, 1, 15, 14, 13, 4, 10, 0, 7, 6, 3, 9, 2, 8, 11],
    [13, 11, 7, 14, 12, 1, 3, 9, 5, 0, 15, 4, 8, 6, 2, 10],
    [6, 15, 14, 9, 11, 3, 0, 8, 12, 2, 13, 7, 1, 4, 10, 5],
    [10, 2, 8, 4, 7, 6, 1, 5, 15, 11, 9, 14, 3, 12, 13, 0],
]
SIGMA12 = SIGMA + SIGMA[:2]


def keccak_rc():
    out = []
    r = 1
    for _ in range(24):
        rc = 0
        for j in range(7):
            if r & 1:
                rc |= 1 << ((1 << j) - 1)
            r = ((r << 1) ^ ((r >> 7) * 0x71)) & 0xff
        out.append(rc)
    return out


def keccak_rho_pi():
    """(rotation offsets, lane indices) along the pi walk starting from (1,0), as used by the
    compact Keccak-f implementation: ROTC[t] = (t+1)(t+2)/2 mod 64, PIL[t] = lane index x + 5y."""
    x, y = 1, 0
    rot, pil = [], []
    for t in range(24):
        rot.append(((t + 1) * (t + 2) // 2) % 64)
        x, y = y, (2 * x + 3 * y) % 5
        pil.append(x + 5 * y)
    return rot, pil


KECCAK_RC = keccak_rc()
KECCAK_ROTC, KECCAK_PIL = keccak_rho_pi()

# (block bytes, output bits) of every fixed variant
VARIANTS = {
    "sha1::Sha1": (64, 160), "sha2::Sha224": (64, 224), "sha2::Sha256": (64, 256), "sha2::Sha384": (128, 384), "sha2::Sha512": (128, 512),
    "sha2::Sha512Trunc224": (128, 224), "sha2::Sha512Trunc256": (128, 256),
    "sha3::Sha3_224": (144, 224), "sha3::Sha3_256": (136, 256), "sha3::Sha3_384": (104, 384), "sha3::Sha3_512": (72, 512),
    "keccak::Keccak224": (144, 224), "keccak::Keccak256": (136, 256), "keccak::Keccak384": (104, 384), "keccak::Keccak512": (72, 512),
    "ripemd160::Ripemd160": (64, 160),
}
