"""Secret-content taint analysis over MIR (R-TAINT, DESIGN §2.4).

Values carry *content* taint as a set of access paths (field names; all array indices collapse to
'[]'); *shape* (slice lengths, iterator exhaustion, enum discriminants produced by shape-only library
functions) is public.  Per function a monotone forward dataflow runs to a fixpoint; calls are analysed
context-sensitively (memoised on the callee and the taint of each argument), trait-generic calls are
resolved against every in-crate impl, closures passed as generic `F` are bound per call site.

Sinks (violations): a SwitchInt / Assert whose operand has tainted content, and calls to library
functions whose control flow depends on argument content.  External callees outside the allow-list
that receive tainted content are reported as `unsummarised-callee` (fail closed)."""
import re
from collections import defaultdict

from . import mir
from .mir import Call

DISC = "#disc"

# external functions that only move / combine data (no content-dependent control flow)
ALLOW = re.compile(r"^(core::arch::|core::core_arch::|core::num::|core::slice::|core::array::|core::ptr::|core::mem::|core::intrinsics::|core::hint::|core::clone::|<.* as core::clone::Clone>::clone$|"
                   r"core::convert::|<.* as core::convert::|core::ops::|<.* as core::ops::|core::iter::|<.* as core::iter::|core::option::Option::<T>::(unwrap|expect|map|is_some|is_none|as_ref|as_mut|ok_or)|"
                   r"core::result::Result::<T, E>::(unwrap|expect|ok|is_ok)|alloc::vec::|<alloc::vec::Vec<.*|alloc::slice::|core::str::|core::fmt::|core::panicking::|core::cmp::(min|max)$|core::cmp::impls::|"
                   r"<.* as core::iter::IntoIterator>::into_iter$|<I as core::iter::IntoIterator>::into_iter$|core::borrow::|<T as core::|<&mut [IAT] as core::|alloc::alloc::|alloc::raw_vec::|alloc::boxed::|<.* as core::default::Default>|core::cmp::PartialEq::ne$)")
# content-branching library functions: their control flow depends on argument CONTENT
SINKS = re.compile(r"(<\[.*\] as core::cmp::PartialEq.*>::(eq|ne)$|core::array::equality::|<\[T; N\] as core::cmp::PartialEq|core::cmp::impls::<impl core::cmp::PartialEq<&B> for &A>::(eq|ne)$|"
                   r"core::cmp::Ord::(cmp|min|max)$|core::cmp::PartialOrd::|core::iter::Iterator::(position|any|all|find|find_map|min|max|min_by|max_by|skip_while|take_while|rposition)$|"
                   r"core::slice::<impl \[T\]>::(contains|starts_with|ends_with|binary_search|sort|sort_unstable)|core::num::<impl \w+>::(checked_\w+|pow|leading_zeros|trailing_zeros|count_ones)$|"
                   r"core::slice::cmp::|core::str::<impl str>::(find|contains))")
# shape-only results: discriminant / value depends on lengths and positions only
SHAPE_FNS = re.compile(r"(::len$|::is_empty$|core::mem::size_of|::capacity$)")


def is_mut_ref_type(ty):
    return ("&mut" in ty) or ("*mut" in ty) or ("IterMut" in ty) or ("ChunksMut" in ty) or ("ChunksExactMut" in ty)
ITER_NEXT = re.compile(r"Iterator>::next$|Iterator::next$|::next_back$|Iterator for core::ops::Range<A>>::next$")


def elem_match(a, b):
    if a == b:
        return True
    if a == "[]" and b.startswith("["):
        return True
    if b == "[]" and a.startswith("["):
        return True
    return False


def is_prefix(p, q):
    """p is a prefix of q, where the wildcard index '[]' matches any '[k]'"""
    return len(p) <= len(q) and all(elem_match(x, y) for x, y in zip(p, q))


class TS:
    """taint store: root -> set of tainted paths"""

    def __init__(self):
        self.m = defaultdict(set)

    def copy(self):
        t = TS()
        for k, v in self.m.items():
            t.m[k] = set(v)
        return t

    def rel(self, root, path):
        """tainted sub-paths relative to (root, path); () if a prefix is tainted"""
        out = set()
        for p in self.m.get(root, ()):
            if is_prefix(p, path):
                return {()}
            if is_prefix(path, p):
                out.add(p[len(path):])
        return out

    def add(self, root, path, rels):
        ch = False
        s = self.m[root]
        for r in rels:
            p = tuple(path) + tuple(r)
            if len(p) > 8:
                p = p[:8]
            if p not in s and not any(is_prefix(q, p) for q in s):
                s.add(p)
                ch = True
        return ch

    def union(self, other):
        ch = False
        for k, v in other.m.items():
            n = self.m[k] | v
            if n != self.m[k]:
                self.m[k] = n
                ch = True
        return ch


class Summary:
    def __init__(self):
        self.ret = set()
        self.params = {}      # param index -> set(paths) at exit
        self.sinks = []       # (fn path, line, kind, detail, chain)
        self.unsummarised = set()
        self.analysed = set()
        self.switches = 0


class Analyzer:
    def __init__(self, prog, declass_ret=(), declass_in=(), extra_allow=None):
        self.P = prog
        self.memo = {}
        self.stack = []
        self.declass_ret = set(declass_ret)     # fn paths whose return value is public
        self.declass_in = set(declass_in)       # fn paths inside which Choice -> bool conversions are public verdicts
        self.impls_by_trait_method = defaultdict(list)
        for f in prog.fns.values():
            if f.impl_trait:
                self.impls_by_trait_method[(f.impl_trait.split("<")[0], f.name)].append(f)
        self.closure_by_span = {}
        for f in prog.fns.values():
            if f.kind == "Closure":
                sp = f.raw.get("span", "")
                self.closure_by_span[sp.split(": ")[0]] = f
        self.fn_count = set()
        self.switch_count = 0

    # ------------------------------------------------------------ place resolution
    def resolve(self, fn, pl, depth=0):
        """(root_local, path) of a place, looking through single-definition reference temporaries."""
        local, projs = pl[0], pl[1]
        path = []
        root = local
        # chase the base local if it is a single-def temp holding a reference / copy of a place
        if depth < 12 and not (1 <= local <= fn.argc):
            sd = fn.single_def(local)
            if sd is not None and sd[1] != "t":
                rv = fn.blocks[sd[0]]["s"][sd[1]][2]
                if rv[0] in ("ref", "raw") or (rv[0] == "cfd") or (rv[0] == "use" and rv[1][0] in ("cp", "mv") and fn.locals[local].startswith(("&", "*"))):
                    inner = rv[2] if rv[0] in ("ref", "raw") else (rv[1] if rv[0] == "cfd" else rv[1][1])
                    r2, p2 = self.resolve(fn, inner, depth + 1)
                    root = r2
                    path = list(p2)
                elif rv[0] == "cast" and rv[2][0] in ("cp", "mv") and fn.locals[local].startswith(("&", "*")):
                    r2, p2 = self.resolve(fn, rv[2][1], depth + 1)
                    root = r2
                    path = list(p2)
        for p in projs:
            if p == "*":
                continue
            if p[0] == "f":
                path.append(p[2] if p[2] != "" else str(p[1]))
            elif p[0] == "c" and not p[3]:
                path.append("[%d]" % p[1])
            elif p[0] == "i":
                ie = fn.local_expr(p[1])
                path.append("[%d]" % ie[1] if ie[0] == "const" else "[]")
            elif p[0] in ("c", "s"):
                path.append("[]")
            elif p[0] == "d":
                continue
        return root, tuple(path[:8])

    def op_rel(self, fn, st, op, extra=()):
        if op[0] in ("cp", "mv"):
            r, p = self.resolve(fn, op[1])
            out = st.rel(r, p + tuple(extra))
            if not op[1][1] and r != op[1][0]:
                out = out | st.rel(op[1][0], tuple(extra))
            return out
        return set()

    def add_t(self, st, alias, root, path, rels):
        if not rels:
            return
        st.add(root, path, rels)
        seen = set()
        work = list(alias.get(root, ()))
        while work:
            r2, p2 = work.pop()
            if (r2, p2) in seen:
                continue
            seen.add((r2, p2))
            st.add(r2, p2, {()})
            work.extend(alias.get(r2, ()))

    # ------------------------------------------------------------ per-function analysis
    def analyze(self, fn, ptaints, binding=None, chain=()):
        key = (fn.id, tuple(frozenset(x) for x in ptaints), binding)
        if key in self.memo:
            return self.memo[key]
        if key in self.stack:
            return Summary()
        self.stack.append(key)
        S = Summary()
        self.memo[key] = S
        self.fn_count.add(fn.id)
        S.analysed.add(fn.path)
        st0 = TS()
        for i, t in enumerate(ptaints):
            if t:
                st0.add(i + 1, (), t)
        succ, pred_, reach = fn.cfg()
        # blocks reachable when constant branches are pruned
        live = set()
        stack_ = [0]
        while stack_:
            b = stack_.pop()
            if b in live:
                continue
            live.add(b)
            t = fn.term(b)
            outs = succ[b]
            if t[0] == "sw":
                cv = self.const_value(fn, t[1])
                if cv is not None:
                    tgt = t[3]
                    for v, bb2 in t[2]:
                        if v == cv:
                            tgt = bb2
                    outs = [tgt]
            stack_.extend(outs)
        order = [b for b in fn.rpo() if b in live]
        # one monotone store per function (flow-insensitive inside the function, context-sensitive across
        # calls): transfer functions only add taint, so the least fixpoint over all statements is sound
        st = st0
        alias = {}        # root local -> {(root, path)} of the mutable objects it aliases
        sink_keys = set()
        rounds = 0
        while rounds < 30:
            rounds += 1
            before = sum(len(v) for v in st.m.values()) + sum(len(v) for v in alias.values())
            for b in order:
                for s_ in fn.stmts(b):
                    if s_[0] == "=":
                        self.assign(fn, st, s_[1], s_[2], alias)
                t = fn.term(b)
                if t[0] == "call":
                    self.call(fn, st, b, t, S, alias, binding, chain, sink_keys)
            after = sum(len(v) for v in st.m.values()) + sum(len(v) for v in alias.values())
            if after == before:
                break
        for b in order:
            t = fn.term(b)
            if t[0] == "sw" and t[1][0] != "k":
                self.switch_count += 1
                rel = self.op_rel(fn, st, t[1])
                if rel and () in rel and not self.const_switch(fn, t):
                    S.sinks.append((fn.path, "%s:%s" % (fn.file, t[5]), "branch", "branch on secret-dependent value %s" % mir.fmt(fn.expr(t[1]))[:120], chain))
            elif t[0] == "assert":
                rel = self.op_rel(fn, st, t[1])
                if rel and t[3] not in ("bounds",):
                    S.sinks.append((fn.path, "%s:%s" % (fn.file, t[6]), "assert", "%s check on secret-dependent value" % t[3], chain))
            elif t[0] == "ret":
                S.ret |= st.rel(0, ())
                r0, p0 = self.resolve(fn, [0, []])
                if r0 != 0:
                    S.ret |= st.rel(r0, p0)
                for i in range(fn.argc):
                    S.params.setdefault(i, set()).update(st.rel(i + 1, ()))
        if fn.path in self.declass_ret:
            S.ret = set()
        self.stack.pop()
        return S

    def const_value(self, fn, op):
        if op[0] == "k":
            v = op[1].get("v")
            return int(v) if isinstance(v, (int, bool)) else None
        e = fn.expr(op)
        if e[0] == "const":
            return e[1]
        return None

    def const_switch(self, fn, t):
        e = fn.expr(t[1])
        return e[0] in ("const", "param") or (e[0] == "bin" and all(x[0] in ("const", "param") for x in (e[2], e[3])))

    def assign(self, fn, st, pl, rv, alias):
        k = rv[0]
        rels = set()
        # a local of mutable reference / pointer type aliases whatever the assigned value points to
        if not pl[1] and is_mut_ref_type(fn.locals[pl[0]]):
            src = None
            if k in ("ref", "raw"):
                src = rv[2]
            elif k in ("use", "cast") and (rv[1] if k == "use" else rv[2])[0] in ("cp", "mv"):
                src = (rv[1] if k == "use" else rv[2])[1]
            elif k == "cfd":
                src = rv[1]
            if src is not None:
                r_, p_ = self.resolve(fn, src)
                if r_ != pl[0]:
                    al = set(alias.get(pl[0], ()))
                    al.add((r_, p_))
                    al |= set(alias.get(r_, ()))
                    if not src[1] and src[0] != r_:
                        al |= set(alias.get(src[0], ()))
                    alias[pl[0]] = al
        if k in ("use", "cfd"):
            op = rv[1] if k == "use" else ["cp", rv[1]]
            rels = self.op_rel(fn, st, op)
        elif k in ("ref", "raw"):
            r, p = self.resolve(fn, rv[2])
            rels = st.rel(r, p)
        elif k == "cast":
            rels = self.op_rel(fn, st, rv[2])
        elif k in ("bin",):
            if self.op_rel(fn, st, rv[2]) or self.op_rel(fn, st, rv[3]):
                rels = {()}
        elif k == "un":
            if rv[1] == "PtrMetadata":
                rels = set()
            elif self.op_rel(fn, st, rv[2]):
                rels = {()}
        elif k == "rep":
            if self.op_rel(fn, st, rv[1]):
                rels = {("[]",)}
        elif k == "agg":
            kind = rv[1]
            # an aggregate (closure environment, struct, tuple) that stores mutable references aliases their targets
            if not pl[1]:
                al = set(alias.get(pl[0], ()))
                for o in rv[2]:
                    if o[0] in ("cp", "mv") and not o[1][1] and is_mut_ref_type(fn.locals[o[1][0]]):
                        r_, p_ = self.resolve(fn, o[1])
                        al.add((r_, p_))
                        al |= set(alias.get(r_, ()))
                if al:
                    alias[pl[0]] = al
            if kind[0] == "adt":
                names = kind[4]
                for n, o in zip(names, rv[2]):
                    for r_ in self.op_rel(fn, st, o):
                        rels.add((n,) + tuple(r_))
            elif kind[0] == "array":
                for i, o in enumerate(rv[2]):
                    for r_ in self.op_rel(fn, st, o):
                        rels.add(("[%d]" % i,) + tuple(r_))
            else:
                for i, o in enumerate(rv[2]):
                    for r_ in self.op_rel(fn, st, o):
                        rels.add((str(i),) + tuple(r_))
        elif k == "disc":
            r, p = self.resolve(fn, rv[1])
            rr = st.rel(r, p + (DISC,))
            rels = {()} if rr else set()
        if not rels:
            return
        if not pl[1]:
            st.add(pl[0], (), rels)          # defining a local: no store through an alias
        else:
            root, path = self.resolve(fn, pl)
            self.add_t(st, alias, root, path, rels)

    # ------------------------------------------------------------ calls
    def targets(self, fn, c, binding):
        name = c.name()
        cands = self.P.by_path.get(name)
        if cands and len(cands) == 1:
            return [cands[0]], None
        k = c.func[1] if c.func[0] == "k" else {}
        crate_trait = bool(c.trait) and bool(k.get("fn_local"))
        if crate_trait and "res" not in k:
            # unresolved call through a trait defined in this crate (D: Digest, M: Mac, ...): every impl
            tr = c.trait.split("<")[0]
            meth = (c.callee or "").split("::")[-1]
            impls = self.impls_by_trait_method.get((tr, meth))
            if impls:
                return impls, None
            prov = self.P.by_path.get(c.callee or "")
            if prov and len(prov) == 1:
                return prov, None
        if name.startswith("core::cmp::impls::<impl core::cmp::PartialEq<&B> for &A>::") and c.res_ga:
            # &A == &B forwards to <A as PartialEq<B>>::eq
            tys = [g for g in c.res_ga if not g.startswith("'")]
            a = re.sub(r"^(&('\w+ )?(mut )?)+", "", tys[0]) if tys else ""
            b2 = re.sub(r"^(&('\w+ )?(mut )?)+", "", tys[1]) if len(tys) > 1 else a
            meth = name.split("::")[-1]
            for cand in ("<%s as core::cmp::PartialEq>::%s" % (a, meth), "<%s as core::cmp::PartialEq<%s>>::%s" % (a, b2, meth)):
                g = self.P.by_path.get(cand)
                if g and len(g) == 1:
                    return g, None
        if name.endswith("FnMut::call_mut") or name.endswith("FnOnce::call_once") or name.endswith("Fn::call"):
            if binding:
                return [binding], "closure"
        return None, None

    def closure_for(self, c):
        for g in list(c.res_ga) + list(c.ga):
            m = re.search(r"\{closure@([^}]+?)(: \d+:\d+)?\}", g)
            if m:
                loc = m.group(1)
                for sp, f in self.closure_by_span.items():
                    if sp == loc or sp.startswith(loc) or loc.startswith(sp):
                        return f
        return None

    def call(self, fn, st, b, t, S, alias, binding, chain, sink_keys):
        c = Call(fn, b, t)
        name = c.name()
        arg_rels = []
        arg_targets = []
        for a in c.args:
            if a[0] in ("cp", "mv"):
                r, p = self.resolve(fn, a[1])
                arg_rels.append(st.rel(r, p))
                arg_targets.append((r, p))
            else:
                arg_rels.append(set())
                arg_targets.append(None)
        any_t = any(arg_rels)
        droot, dpath = (c.dest[0], ()) if not c.dest[1] else self.resolve(fn, c.dest)
        tg, how = self.targets(fn, c, binding)
        if tg:
            ret = set()
            for g in tg:
                if how == "closure":
                    # rust-call ABI: (env, (a, b, ...)) -> params (env, a, b, ...)
                    pt = [arg_rels[0]]
                    tup = arg_rels[1] if len(arg_rels) > 1 else set()
                    nparams = g.argc - 1
                    for i in range(nparams):
                        pt.append({r_[1:] for r_ in tup if r_ and r_[0] == str(i)} | ({()} if () in tup else set()))
                    sub = self.analyze(g, pt, None, chain + ("%s:%s" % (fn.path, c.line),))
                else:
                    pt = list(arg_rels) + [set()] * max(0, g.argc - len(arg_rels))
                    pt = pt[: g.argc]
                    bind = self.closure_for(c)
                    sub = self.analyze(g, pt, bind, chain + ("%s:%s" % (fn.path, c.line),))
                ret |= sub.ret
                S.sinks.extend(x for x in sub.sinks if x not in S.sinks)
                S.unsummarised |= sub.unsummarised
                S.analysed |= sub.analysed
                # propagate effects on reference arguments back to their targets
                for i, tgt in enumerate(arg_targets):
                    if tgt is None:
                        continue
                    if how == "closure" and i == 1:
                        continue
                    ex = sub.params.get(i, set()) if how != "closure" else (sub.params.get(0, set()) if i == 0 else set())
                    # only what the callee ADDED is a store into the caller's object
                    had = arg_rels[i] if i < len(arg_rels) else set()
                    ex = {p_ for p_ in ex if not any(is_prefix(q_, p_) for q_ in had)}
                    if ex:
                        self.add_t(st, alias, tgt[0], tgt[1], ex)
            if fn.path in self.declass_in and (name.endswith("Choice::is_true") or name.endswith("Choice::is_false") or "From<constant_time::Choice> for bool" in name):
                ret = set()
            if ret:
                st.add(droot, dpath, ret)
            self.note_alias(fn, c, alias, droot, arg_targets)
            return
        # ---- external callee
        self.note_alias(fn, c, alias, droot, arg_targets)
        if SHAPE_FNS.search(name):
            return
        if name.endswith("Into::into") and fn.path in self.declass_in:
            return
        if SINKS.search(name) and any_t:
            k = (fn.path, c.line, "libcall")
            if k not in sink_keys:
                sink_keys.add(k)
                S.sinks.append((fn.path, "%s:%s" % (fn.file, c.line), "content-branching-call", "%s is called with secret-dependent content (its control flow depends on the data)" % name, chain))
            st.add(droot, dpath, {()})
            return
        if any_t and not ALLOW.search(name) and not name.startswith("core::") and not name.startswith("<"):
            S.unsummarised.add(name)
        if ("TryFrom<" in name or "TryInto<" in name) and (name.endswith("::try_from") or name.endswith("::try_into")):
            if arg_rels and arg_rels[0]:
                st.add(droot, dpath, {("0",)})
            return
        if ITER_NEXT.search(name):
            # payload tainted like the iterator's content; exhaustion (discriminant) is shape
            if arg_rels and arg_rels[0]:
                st.add(droot, dpath, {("0",)})
            return
        if name.endswith("::unwrap") or name.endswith("::expect") or name.endswith("Result::<T, E>::ok"):
            rels = {r_[1:] if r_ and r_[0] in ("0", "Some", "Ok") else r_ for r_ in arg_rels[0]} if arg_rels else set()
            if rels:
                st.add(droot, dpath, rels)
            return
        if any_t:
            st.add(droot, dpath, {()})
            # &mut arguments may receive tainted content
            for i, a in enumerate(c.args):
                if a[0] in ("cp", "mv") and arg_targets[i] is not None:
                    ty = fn.locals[a[1][0]] if not a[1][1] else ""
                    if is_mut_ref_type(ty) and any(arg_rels[j] for j in range(len(arg_rels)) if j != i):
                        self.add_t(st, alias, arg_targets[i][0], arg_targets[i][1], {()})
        self.note_alias(fn, c, alias, droot, arg_targets)

    def note_alias(self, fn, c, alias, droot, arg_targets):
        """a call that returns a mutable reference / pointer / mutable iterator aliases the mutable
        references it was given: later stores through the result reach those objects"""
        dty = fn.locals[c.dest[0]] if not c.dest[1] else ""
        if not is_mut_ref_type(dty) or c.dest[1]:
            return
        prev = set(alias.get(droot, ()))
        for i, a in enumerate(c.args):
            if a[0] in ("cp", "mv") and arg_targets[i] is not None:
                aty = fn.locals[a[1][0]] if not a[1][1] else "&mut"
                if is_mut_ref_type(aty):
                    prev.add(arg_targets[i])
                    prev |= set(alias.get(arg_targets[i][0], ()))
        if prev:
            alias[droot] = prev
