"""Bit provenance on ssa terms (R-BITS / R-KBITS): each bit of a value is 0, 1, (name, k) = bit k of
the named little-endian byte string / word, or None (unknown).  Exact for shift / mask / or / xor /
casts / constants / ite on equal arms; additions are exact when the operands' supports are
disjoint (no carry possible)."""
from . import ssa


def cbits(v, w):
    v &= (1 << w) - 1
    return [(v >> i) & 1 for i in range(w)]


def fit(b, w):
    return b[:w] if len(b) >= w else b + [0] * (w - len(b))


class Bits:
    def __init__(self, leaf):
        self.leaf = leaf   # leaf(term) -> (bits list) or None
        self.memo = {}

    def tw(self, t, default=64):
        if isinstance(t, tuple) and t:
            if t[0] == "bin":
                return ssa.WIDTH.get(t[4], default)
            if t[0] in ("cast",):
                return ssa.WIDTH.get(t[2], default)
            if t[0] == "c":
                return ssa.WIDTH.get(t[2], default)
            if t[0] == "un":
                return ssa.WIDTH.get(t[3], default)
        return default

    def bits(self, t, w):
        key = (t, w)
        if key in self.memo:
            return self.memo[key]
        r = self._bits(t, w)
        self.memo[key] = r
        return r

    def _bits(self, t, w):
        if not isinstance(t, tuple) or not t:
            return [None] * w
        lf = self.leaf(t)
        if lf is not None:
            return fit(list(lf), w)
        k = t[0]
        if k == "c" and isinstance(t[1], int):
            return cbits(t[1], w)
        if k == "cast":
            src_w = self.tw(t[1], None)
            inner = self.bits(t[1], src_w if src_w else w)
            # zero extension for unsigned sources; signed sources: unknown upper bits
            if src_w and src_w < w and isinstance(t[1], tuple) and self._signed(t[1]):
                return inner + [None] * (w - src_w)
            return fit(inner, w)
        if k == "bin":
            op, a, b = t[1], t[2], t[3]
            ow = ssa.WIDTH.get(t[4], w)
            if op in ("Shr", "ShrUnchecked", "Shl", "ShlUnchecked"):
                if not ssa.is_c(b):
                    return [None] * w
                x = self.bits(a, ow)
                s = b[1]
                r = x[s:] + [0] * min(s, ow) if op.startswith("Shr") else ([0] * s + x)[:ow]
                return fit(r[:ow], w)
            x = self.bits(a, ow)
            y = self.bits(b, ow)
            if op == "BitAnd":
                r = [0 if (p == 0 or q == 0) else q if p == 1 else p if q == 1 else p if p == q else None for p, q in zip(x, y)]
            elif op == "BitOr":
                r = [1 if (p == 1 or q == 1) else q if p == 0 else p if q == 0 else p if p == q else None for p, q in zip(x, y)]
            elif op == "BitXor":
                r = [q if p == 0 else p if q == 0 else (p ^ q) if (p in (0, 1) and q in (0, 1)) else 0 if (p == q and p is not None) else None for p, q in zip(x, y)]
            elif op in ("Add", "AddUnchecked"):
                if all(p == 0 or q == 0 for p, q in zip(x, y)):
                    r = [q if p == 0 else p for p, q in zip(x, y)]
                else:
                    r = [None] * ow
            else:
                r = [None] * ow
            return fit(r, w)
        if k == "un" and t[1] == "Not":
            x = self.bits(t[2], ssa.WIDTH.get(t[3], w))
            return fit([1 - p if p in (0, 1) else None for p in x], w)
        if k == "ite":
            x = self.bits(t[2], w)
            y = self.bits(t[3], w)
            return [p if p == q else None for p, q in zip(x, y)]
        return [None] * w

    def _signed(self, t):
        if t[0] == "bin":
            return ssa.is_signed(t[4])
        if t[0] == "cast":
            return ssa.is_signed(t[2])
        if t[0] == "c":
            return ssa.is_signed(t[2])
        return False


def show(bits):
    out = []
    for b in bits:
        out.append(str(b) if b in (0, 1) else "?" if b is None else "%s.%d" % (b[0], b[1]))
    return "[" + " ".join(out) + "]"


def byte_leaf(names):
    """leaf function: bytes of the named input byte strings.
    Recognises ('elem', ('load', name, ep), i) and ('load', 'name[i]', ep)."""
    import re

    def leaf(t):
        if t[0] == "ld" and len(t) >= 5 and t[3] in names and isinstance(t[4], tuple) and t[4][:1] == ("c",) and isinstance(t[2], int):
            # a word load (read_u32_le / _be ...) of t[2] bytes at a constant offset of a named byte string
            off, nb = t[4][1], t[2]
            if t[1] == "le":
                return [(t[3], 8 * off + j) for j in range(8 * nb)]
            return [(t[3], 8 * (off + nb - 1 - j // 8) + j % 8) for j in range(8 * nb)]
        if t[0] == "elem" and isinstance(t[1], tuple) and t[1] and t[1][0] == "load" and t[1][1] in names and isinstance(t[2], int):
            return [(t[1][1], 8 * t[2] + j) for j in range(8)]
        if t[0] == "load":
            m = re.match(r"^(.+)\[(\d+)\]$", t[1])
            if m and m.group(1) in names:
                return [(m.group(1), 8 * int(m.group(2)) + j) for j in range(8)]
        return None
    return leaf
