use cryptoxide::mac::Mac;

#[test]
fn d1_blake2_counter_wrap() {
    // 4 GiB + 1 MiB through BLAKE2s: the 32-bit low counter word must wrap and carry
    let mut c = cryptoxide::hashing::blake2s::Blake2s::<256>::new();
    let chunk = vec![0u8; 1 << 20];
    for _ in 0..(4096 + 1) {
        c.update_mut(&chunk);
    }
    let _ = c.finalize();
}

#[test]
fn d2_poly1305_second_result() {
    let mut p = cryptoxide::poly1305::Poly1305::new(&[7u8; 32]);
    p.input(&[1u8; 16]);
    let mut a = [0u8; 16];
    let mut b = [0u8; 16];
    p.raw_result(&mut a);
    p.raw_result(&mut b);
    assert_eq!(a, b);
}

#[test]
#[should_panic]
fn d2_poly1305_input_after_result() {
    let mut p = cryptoxide::poly1305::Poly1305::new(&[7u8; 32]);
    p.input(&[1u8; 16]);
    let mut a = [0u8; 16];
    p.raw_result(&mut a);
    p.input(&[1u8; 16]);
}

#[test]
fn d3_blake2_mac_reset_keeps_key() {
    let key = [9u8; 32];
    let mut m = cryptoxide::blake2b::Blake2b::new_keyed(32, &key);
    Mac::input(&mut m, b"abc");
    let t1 = Mac::result(&mut m);
    Mac::reset(&mut m);
    Mac::input(&mut m, b"abc");
    let t2 = Mac::result(&mut m);
    assert!(t1 == t2);
    let mut m = cryptoxide::blake2s::Blake2s::new_keyed(32, &key);
    Mac::input(&mut m, b"abc");
    let t1 = Mac::result(&mut m);
    Mac::reset(&mut m);
    Mac::input(&mut m, b"abc");
    let t2 = Mac::result(&mut m);
    assert!(t1 == t2);
}

#[test]
fn d6_ct_le_ge_on_equal() {
    use cryptoxide::constant_time::{CtGreater, CtLesser};
    assert!(u64::ct_le(5, 5).is_true());
    assert!(u64::ct_ge(5, 5).is_true());
    assert!(u64::ct_le(4, 5).is_true());
    assert!(u64::ct_le(6, 5).is_false());
    assert!(u64::ct_ge(6, 5).is_true());
    assert!(u64::ct_ge(4, 5).is_false());
}

#[test]
fn d7_canonical_scalar_rejects_l() {
    use cryptoxide::curve25519::Scalar;
    let l: [u8; 32] = [
        0xed, 0xd3, 0xf5, 0x5c, 0x1a, 0x63, 0x12, 0x58, 0xd6, 0x9c, 0xf7, 0xa2, 0xde, 0xf9, 0xde, 0x14,
        0, 0, 0, 0, 0, 0, 0, 0, 0, 0, 0, 0, 0, 0, 0, 0x10,
    ];
    assert!(Scalar::from_bytes_canonical(&l).is_none());
    let mut lm1 = l;
    lm1[0] -= 1;
    assert!(Scalar::from_bytes_canonical(&lm1).is_some());
    let mut big = l;
    big[31] = 0x20;
    assert!(Scalar::from_bytes_canonical(&big).is_none());
}

#[test]
fn d8_fe_eq_is_canonical() {
    use cryptoxide::curve25519::Fe;
    let mut b = [0u8; 32];
    b[3] = 1; // 2^24
    let x = Fe::from_bytes(&b);
    let mut b2 = [0u8; 32];
    b2[3] = 2; // 2^25
    let y = Fe::from_bytes(&b2);
    let s = &x + &x;
    assert_eq!(s.to_bytes(), y.to_bytes());
    assert!(s == y);
}

#[test]
fn d9_drg_fill_independent_of_prior() {
    let mut a = cryptoxide::drg::chacha::Drg::<8>::new(&[1u8; 32]);
    let mut b = cryptoxide::drg::chacha::Drg::<8>::new(&[1u8; 32]);
    let mut c = cryptoxide::drg::chacha::Drg::<8>::new(&[1u8; 32]);
    let x: [u8; 40] = a.bytes();
    let mut y = [0xffu8; 40];
    b.fill_slice(&mut y);
    let mut z = [0x55u8; 40];
    c.fill_bytes(&mut z);
    assert_eq!(x, y);
    assert_eq!(x, z);
}
