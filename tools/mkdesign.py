#!/usr/bin/env python3
"""Regenerate the machine-written blocks of DESIGN.md (between <!-- BEGIN:x --> / <!-- END:x --> markers):
  CLAUSES     per-property decided clauses = the EXPLANATION docstring of each cxsa/props/Cxx.py
  SEEDS       seeded change x check table from seeded/RESULTS.json (written by tools/seedrun.py --json)"""
import importlib, json, os, re, sys
VERIF = os.path.dirname(os.path.dirname(os.path.abspath(__file__)))
sys.path.insert(0, VERIF)

def clauses():
    out = []
    for i in range(1, 21):
        pid = "C%02d" % i
        m = importlib.import_module("cxsa.props." + pid)
        out.append("#### %s  (level: %s)\n" % (pid, getattr(m, "LEVEL", "other")))
        out.append("Technique: %s\n" % getattr(m, "TECHNIQUE", ""))
        out.append("```\n%s\n```\n" % (m.EXPLANATION or m.__doc__).strip())
    return "\n".join(out)

def seeds():
    p = os.path.join(VERIF, "seeded", "RESULTS.json")
    if not os.path.exists(p):
        return "(run tools/seedrun.py --all-checks --json)"
    R = json.load(open(p))
    rows = ["| seed | property | files touched | own check | rule that fires first | also caught by |", "|---|---|---|---|---|---|"]
    for sid in sorted(R["seeds"]):
        r = R["seeds"][sid]
        meta = json.load(open(os.path.join(VERIF, "seeded", sid, "meta.json")))
        own = r["results"].get(r["property"], "nocheck")
        rule = ""
        m = re.search(r"rule=(\S+) instance=(.*?) at ", own)
        if m:
            rule = "`%s` / %s" % (m.group(1), m.group(2)[:70])
        others = sorted(k for k, v in r["results"].items() if k != r["property"] and v.startswith("CAUGHT"))
        rows.append("| %s | %s | %s | %s | %s | %s |" % (sid, r["property"], ", ".join(f.replace("src/", "") for f in meta.get("files_touched", [])), "caught" if own.startswith("CAUGHT") else own.split()[0], rule, ", ".join(others)))
    rows.append("")
    rows.append("Tier: %s. Own-check catches: %d / %d; caught by at least one check: %d / %d." % (R["tier"], sum(1 for r in R["seeds"].values() if r["results"].get(r["property"], "").startswith("CAUGHT")), len(R["seeds"]), sum(1 for r in R["seeds"].values() if any(v.startswith("CAUGHT") for v in r["results"].values())), len(R["seeds"])))
    return "\n".join(rows)

p = os.path.join(VERIF, "DESIGN.md")
s = open(p).read()
for name, fn in (("CLAUSES", clauses), ("SEEDS", seeds)):
    a, b = "<!-- BEGIN:%s -->" % name, "<!-- END:%s -->" % name
    if a in s and b in s:
        s = s[: s.index(a) + len(a)] + "\n" + fn() + "\n" + s[s.index(b):]
open(p, "w").write(s)
print("DESIGN.md blocks regenerated")
