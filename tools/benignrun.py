#!/usr/bin/env python3
"""tools/benignrun.py <dir-with-patches>...  — apply each behaviour-preserving patch (<dir>/<k>/patch.diff) to a scratch copy of
/repo and run EVERY check: any VIOLATION is a false alarm of the checker."""
import json, os, shutil, subprocess, sys, tempfile, glob
from concurrent.futures import ThreadPoolExecutor
VERIF = os.path.dirname(os.path.dirname(os.path.abspath(__file__)))
def run(pd):
    tmp = tempfile.mkdtemp(prefix="benign-", dir="/var/tmp")
    try:
        scr = os.path.join(tmp, "repo")
        subprocess.check_call(["rsync", "-a", "--exclude", "target", "--exclude", ".git", "/repo/", scr + "/"])
        p = subprocess.run(["patch", "-p1", "-s", "-i", os.path.join(pd, "patch.diff")], cwd=scr, stdout=subprocess.PIPE, stderr=subprocess.STDOUT, text=True)
        if p.returncode != 0:
            return pd, {"_": "patch failed: " + p.stdout[-200:]}
        res = {}
        for i in range(1, 21):
            pid = "C%02d" % i
            env = dict(os.environ, CX_REPO=scr, CX_EVIDENCE_DIR=os.path.join(tmp, "ev"), CX_CACHE_DIR=os.path.join(tmp, "cache"))
            r = subprocess.run([os.path.join(VERIF, "check"), pid], cwd=VERIF, env=env, stdout=subprocess.PIPE, stderr=subprocess.STDOUT, text=True)
            if r.returncode != 0:
                lines = [l.strip()[:260] for l in r.stdout.splitlines() if l.strip().startswith("rule=")]
                res[pid] = lines[:3] or [r.stdout[-300:]]
        return pd, res
    finally:
        shutil.rmtree(tmp, ignore_errors=True)
dirs = []
for a in sys.argv[1:]:
    dirs += sorted(d for d in glob.glob(os.path.join(a, "*")) if os.path.exists(os.path.join(d, "patch.diff")))
bad = 0
with ThreadPoolExecutor(max_workers=5) as ex:
    for pd, res in ex.map(run, dirs):
        if res:
            bad += 1
            print("FALSE-ALARM %s" % pd)
            for k, v in res.items():
                for l in (v if isinstance(v, list) else [v]):
                    print("    %s %s" % (k, l))
        else:
            print("silent      %s" % pd)
print("%d / %d benign patches raised an alarm" % (bad, len(dirs)))
