#!/bin/bash
# tools/benign1.sh <patchdir> <check ids...>: apply one benign patch to a scratch copy and run the named checks
pd=$1; shift
S=$(mktemp -d /var/tmp/b1.XXXX)
trap "rm -rf $S" EXIT
rsync -a --exclude target --exclude .git /repo/ $S/
(cd $S && patch -p1 -s < $pd/patch.diff) || exit 1
for id in "$@"; do
  CX_REPO=$S CX_EVIDENCE_DIR=$S/ev CX_CACHE_DIR=$S/.cxcache /verif/check $id 2>&1 | grep -v "^VIOLATION" | cut -c1-400 | tail -8
done
