#!/usr/bin/env python3
"""tools/ingest_seeds.py <outdir> [Cxx ...] — confirm sub-agent deliveries (<outdir>/Cxx/{a,b,c}/) with verify_seed.py and
store the confirmed ones as seeded/Cxx-mN (next free N). Runs several confirmations in parallel."""
import os, re, subprocess, sys
from concurrent.futures import ThreadPoolExecutor
V = os.path.dirname(os.path.dirname(os.path.abspath(__file__)))
out = sys.argv[1]
props = sys.argv[2:] or sorted(os.listdir(out))
jobs = []
for p in props:
    have = [int(m.group(1)) for d in os.listdir(os.path.join(V, "seeded")) for m in [re.match(r"^%s-m(\d+)$" % p, d)] if m]
    nxt = max(have + [0]) + 1
    for k in sorted(os.listdir(os.path.join(out, p))):
        src = os.path.join(out, p, k)
        if not os.path.exists(os.path.join(src, "patch.diff")) or os.path.exists(os.path.join(src, ".ingested")):
            continue
        jobs.append((src, "%s-m%d" % (p, nxt), p)); nxt += 1
def run(j):
    r = subprocess.run([sys.executable, os.path.join(V, "tools", "verify_seed.py")] + list(j), stdout=subprocess.PIPE, stderr=subprocess.STDOUT, text=True)
    if r.returncode == 0:
        open(os.path.join(j[0], ".ingested"), "w").write(j[1])
    return j, r.returncode, r.stdout.strip().splitlines()[-3:]
with ThreadPoolExecutor(max_workers=6) as ex:
    for j, rc, tail in ex.map(run, jobs):
        print(j[1], j[0], "rc=%d" % rc, " | ".join(tail)[:300], flush=True)
