#!/usr/bin/env python3
"""Regenerate cxsa/anchors.json: for every configuration, the signature of every crate function of the pinned tree
({path: [signature, visibility]}).  The rule base names private helpers by path; when such a path is missing on a later
tree and exactly one NEW private function of the same module has the identical signature, mir.Program treats it as the
renamed helper (a rename is behaviour-preserving; an anchor lost for any other reason stays a violation)."""
import json, os, sys
V = os.path.dirname(os.path.dirname(os.path.abspath(__file__)))
sys.path.insert(0, V)
from cxsa import facts, mir
import hashlib


def shape_of(f):
    return "%d:%d:%s" % (len(f.locals), len(f.blocks), hashlib.sha1("|".join(f.locals).encode()).hexdigest()[:12])


out = {}
for cfg in sorted(facts.CONFIGS):
    try:
        d, _ = facts.extract(cfg)
    except Exception as e:
        print("skip", cfg, str(e)[:80])
        continue
    P = mir.Program(d, cfg)
    callers = {}
    for f in P.fns.values():
        for c in f.calls():
            if c.local:
                callers.setdefault(c.name(), set()).add(f.path)
    out[cfg] = {f.path: [f.raw.get("sig", ""), str(f.raw.get("vis") or "")[:10], sorted(callers.get(f.path, ())), sorted({c.name() for c in f.calls() if not c.name().startswith("core::panicking")}), shape_of(f), {str(k): v for k, v in sorted(f.dbg.items())}] for f in P.fns.values() if f.kind != "Closure"}
    out[cfg]["#adts"] = {a_["path"]: [[[f_["name"] for f_ in v_["fields"]], [f_["t"] for f_ in v_["fields"]]] for v_ in a_["variants"]] for a_ in d["adts"]}
    print(cfg, len(out[cfg]))
json.dump(out, open(os.path.join(V, "cxsa", "anchors.json"), "w"), indent=0, sort_keys=True)
