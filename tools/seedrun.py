#!/usr/bin/env python3
"""Run checks against seeded changes:  tools/seedrun.py [--all-checks] [seed-id ...]
Each seed is applied to a scratch copy of /repo (never to /repo itself); the copy is removed afterwards."""
import json, os, shutil, subprocess, sys, tempfile, glob
from concurrent.futures import ThreadPoolExecutor

VERIF = os.path.dirname(os.path.dirname(os.path.abspath(__file__)))

def registered():
    m = json.load(open(os.path.join(VERIF, "MANIFEST.json")))
    return [c["property_id"] for c in m.get("checks", [])]

def available():
    return sorted(os.path.basename(p)[:-3] for p in glob.glob(os.path.join(VERIF, "cxsa/props/C*.py")))

def run_seed(sid, allchecks, tier):
    d = os.path.join(VERIF, "seeded", sid)
    meta = json.load(open(os.path.join(d, "meta.json")))
    tmp = tempfile.mkdtemp(prefix="seedrun-")
    try:
        scr = os.path.join(tmp, "repo")
        subprocess.check_call(["rsync", "-a", "--exclude", "target", "--exclude", ".git", "/repo/", scr + "/"])
        p = subprocess.run(["git", "apply", "--unsafe-paths", "--directory=" + scr, os.path.join(d, "patch.diff")], cwd="/", stdout=subprocess.PIPE, stderr=subprocess.STDOUT, text=True)
        if p.returncode != 0:
            p = subprocess.run(["patch", "-p1", "-s", "-i", os.path.join(d, "patch.diff")], cwd=scr, stdout=subprocess.PIPE, stderr=subprocess.STDOUT, text=True)
            if p.returncode != 0:
                return sid, meta["property"], {}, "patch failed: " + p.stdout[-200:]
        props = available() if allchecks else [meta["property"]]
        res = {}
        for pid in props:
            if pid not in available():
                res[pid] = "nocheck"
                continue
            env = dict(os.environ, CX_REPO=scr, CX_EVIDENCE_DIR=os.path.join(tmp, "ev"))
            r = subprocess.run([os.path.join(VERIF, "check"), pid, "--tier", tier], cwd=VERIF, env=env, stdout=subprocess.PIPE, stderr=subprocess.STDOUT, text=True)
            if r.returncode == 1 and "VIOLATION property=" in r.stdout:
                lines = [l.strip() for l in r.stdout.splitlines() if l.strip().startswith("rule=")]
                res[pid] = "CAUGHT " + " | ".join(l[:160] for l in lines[:3])
            elif r.returncode == 0:
                res[pid] = "missed"
            else:
                res[pid] = "ERROR rc=%d %s" % (r.returncode, r.stdout[-300:])
        return sid, meta["property"], res, None
    finally:
        shutil.rmtree(tmp, ignore_errors=True)

def main():
    args = sys.argv[1:]
    allchecks = "--all-checks" in args
    tier = "thorough" if "--thorough" in args else "quick"
    ids = [a for a in args if not a.startswith("--")]
    if not ids:
        ids = sorted(os.listdir(os.path.join(VERIF, "seeded")))
    ids = [i for i in ids if os.path.exists(os.path.join(VERIF, "seeded", i, "meta.json"))]
    caught = 0
    allres = {}
    with ThreadPoolExecutor(max_workers=8) as ex:
        for sid, prop, res, err in ex.map(lambda s: run_seed(s, allchecks, tier), ids):
            if err:
                print("%-10s %s" % (sid, err)); continue
            allres[sid] = {"property": prop, "results": res}
            own = res.get(prop, "nocheck")
            others = [k for k, v in res.items() if k != prop and v.startswith("CAUGHT")]
            hit = own.startswith("CAUGHT") or bool(others)
            caught += hit
            print("%-10s own[%s]=%s%s" % (sid, prop, own[:260], (" ; also caught by " + ",".join(others)) if others else ""))
            for k, v in res.items():
                if v.startswith("ERROR"):
                    print("      %s %s" % (k, v))
    print("caught %d / %d" % (caught, len(ids)))
    if "--json" in args:
        json.dump({"tier": tier, "all_checks": allchecks, "seeds": allres}, open(os.path.join(VERIF, "seeded", "RESULTS.json"), "w"), indent=1, sort_keys=True)

main()
