#!/usr/bin/env python3
"""Regenerate MANIFEST.json from the property modules present under cxsa/props (each module
carries LEVEL, MANIFEST_TEXT, MANIFEST_NOTE, TECHNIQUE, DESIGN_REF) and the N/A table below."""
import importlib, json, os, sys
VERIF = os.path.dirname(os.path.dirname(os.path.abspath(__file__)))
sys.path.insert(0, VERIF)
NA = {}
props = [json.loads(l) for l in open(os.path.join(VERIF, "properties.jsonl"))]
checks = []
na = []
for p in props:
    pid = p["id"]
    path = os.path.join(VERIF, "cxsa", "props", pid + ".py")
    if os.path.exists(path):
        m = importlib.import_module("cxsa.props." + pid)
        if getattr(m, "CLAIMED", True):
            checks.append({
                "property_id": pid,
                "quick_cmd": "./check %s --tier quick" % pid,
                "thorough_cmd": "./check %s --tier thorough" % pid,
                "evidence_file": "/verif/evidence/%s.json" % pid,
                "replay_cmd_template": "./check %s --replay {path}" % pid,
                "engine": "cxsa",
                "level_claimed": {"category": getattr(m, "LEVEL", "other"), "text": getattr(m, "MANIFEST_TEXT", "Static decision, for every input, history and listed build configuration, of the structural necessary conditions of \"%s\" (the clauses are enumerated in the evidence file); not a proof of the input/output behaviour itself." % m.__doc__.strip().split("\n\n")[0].split("\n")[0].rstrip(".")), "design_ref": getattr(m, "DESIGN_REF", "DESIGN.md §5 " + pid)},
                "level_note": getattr(m, "MANIFEST_NOTE", "Decides the structural clauses listed in the evidence file (coverage.explanation) on the MIR of /repo's current tree; the numerical behaviour listed under coverage.not_decided is not decided. Trusted: rustc front end and MIR construction, the cxfacts dump, the rule implementations in /verif/cxsa."),
                "technique": getattr(m, "TECHNIQUE", "static analysis over rustc MIR facts"),
            })
            continue
        na.append({"property_id": pid, "reason": getattr(m, "NA_REASON", "not claimed")})
        continue
    na.append({"property_id": pid, "reason": NA.get(pid, "framework under construction: no check registered yet (see DESIGN.md build order)")})
man = {
    "version": 1,
    "setup_cmd": "cd /verif/driver && CARGO_NET_OFFLINE=true cargo build --release --offline",
    "hooks": {"guard": "typed_io_cryptoxide_verif", "enable": "none needed: static analysis reads the unmodified source; build configurations are selected with RUSTFLAGS / --features only (DESIGN.md §6)",
              "baseline_off_cmd": "cd /repo && cargo test --workspace --no-fail-fast --offline", "source_commits": [], "add_only": True},
    "engines": [{"name": "cxfacts", "path": "/verif/driver", "serves_properties": [c["property_id"] for c in checks], "kind_free_text": "rustc_private driver dumping MIR, resolved callees, evaluated constants, layouts and impls of /repo's current tree per build configuration"},
                {"name": "cxsa", "path": "/verif/cxsa", "serves_properties": [c["property_id"] for c in checks], "kind_free_text": "Python static-analysis library: CFG/dominators, expression reconstruction, linear predicate normalisation, must-set / call-order dataflow, sibling comparison, abstract interpretation, spec oracles"}],
    "checks": checks,
    "not_applicable": na,
    "notes": "Technique family: static analysis only. Every check re-extracts facts from /repo's working tree (content-hash keyed cache). Known findings: /verif/known_findings.json.",
}
json.dump(man, open(os.path.join(VERIF, "MANIFEST.json"), "w"), indent=1)
print("checks:", [c["property_id"] for c in checks], "na:", len(na))
