#!/usr/bin/env python3
"""Automatic mutation sweep (development aid, not a registered check).

  tools/mutsweep.py [--files F ...] [--per-file N] [--jobs J] [--out FILE] [--seed S] [--all-checks]

For every sampled single-token mutant of a library source file (never of test code):
  1. it is applied to a private scratch copy of /repo (never to /repo);
  2. the crate must still type-check in the configuration that compiles the file, and the pinned
     63 lib tests must still pass (mutants the tests kill are of no interest here);
  3. the checks of the properties whose anchors name the file (or all checks) are run with CX_REPO
     pointing at the scratch copy.
Output: one JSON line per test-surviving mutant: file, line, operator, before/after, caught-by or SURVIVED.
Survivors are triaged by hand: equivalent mutant, or a gap in the rules.
"""
import json, os, random, re, shutil, subprocess, sys, tempfile, hashlib
from concurrent.futures import ThreadPoolExecutor
import threading

VERIF = os.path.dirname(os.path.dirname(os.path.abspath(__file__)))
REPO = "/repo"

# configuration needed to compile a file at all (files outside this table are in the default build)
FILE_CFG = {
    "src/chacha/reference.rs": ("-C target-feature=-sse2", "", "check"),
    "src/hashing/sha2/impl256/sse41.rs": ("-C target-feature=+sse4.1", "", "check"),
    "src/hashing/sha2/impl256/avx.rs": ("-C target-feature=+avx", "", "check"),
    "src/hashing/blake2/avx.rs": ("-C target-feature=+avx", "", "check"),
    "src/hashing/blake2/avx2.rs": ("-C target-feature=+avx2", "", "check"),
    "src/curve25519/fe/fe32/mod.rs": ("--cap-lints allow", "--features force-32bits", "check"),
    "src/curve25519/fe/fe32/precomp.rs": ("--cap-lints allow", "--features force-32bits", "check"),
    "src/curve25519/scalar/scalar32.rs": ("--cap-lints allow", "--features force-32bits", "check"),
}

TOK = re.compile(r"""
   (?P<lc>//[^\n]*)
 | (?P<bc>/\*.*?\*/)
 | (?P<str>b?"(?:\\.|[^"\\])*")
 | (?P<chr>b?'(?:\\.|[^'\\])')
 | (?P<life>'[A-Za-z_]\w*)
 | (?P<num>\b(?:0x[0-9a-fA-F_]+|0b[01_]+|\d[\d_]*)(?:[iu](?:8|16|32|64|128|size))?\b)
 | (?P<id>[A-Za-z_]\w*)
 | (?P<op><<=|>>=|\.\.=|<<|>>|<=|>=|==|!=|&&|\|\||\+=|-=|\*=|/=|%=|\^=|&=|\|=|->|=>|::|\.\.|[-+*/%^&|<>=!~?:;,.\#\[\]\(\)\{\}@$])
 | (?P<ws>\s+)
""", re.X | re.S)

OPSWAP = {
    "+": ["-"], "-": ["+"], "<": ["<="], "<=": ["<"], ">": [">="], ">=": [">"], "==": ["!="], "!=": ["=="],
    "&": ["|"], "|": ["&", "^"], "^": ["|", "&"], "<<": [">>"], ">>": ["<<"], "+=": ["-=", "="], "-=": ["+="],
    "|=": ["=", "^="], "^=": ["|=", "="], "&=": ["|="], "&&": ["||"], "||": ["&&"], "*": ["+"], "%": ["/"],
}
IDSWAP = {
    "wrapping_add": ["wrapping_sub"], "wrapping_sub": ["wrapping_add"], "rotate_left": ["rotate_right"], "rotate_right": ["rotate_left"],
    "to_le_bytes": ["to_be_bytes"], "to_be_bytes": ["to_le_bytes"], "from_le_bytes": ["from_be_bytes"], "from_be_bytes": ["from_le_bytes"],
    "min": ["max"], "max": ["min"], "true": ["false"], "false": ["true"],
    "write_u32_le": ["write_u32_be"], "write_u32_be": ["write_u32_le"], "write_u64_le": ["write_u64_be"], "write_u64_be": ["write_u64_le"],
    "read_u32v_le": ["read_u32v_be"], "read_u32v_be": ["read_u32v_le"], "read_u64v_le": ["read_u64v_be"], "read_u64v_be": ["read_u64v_le"],
    "write_u32v_le": ["write_u32v_be"], "write_u32v_be": ["write_u32v_le"], "write_u64v_le": ["write_u64v_be"], "write_u64v_be": ["write_u64v_le"],
    "read_u32_le": ["read_u32_be"], "read_u32_be": ["read_u32_le"],
    "_mm_slli_epi32": ["_mm_srli_epi32"], "_mm_srli_epi32": ["_mm_slli_epi32"], "_mm256_slli_epi32": ["_mm256_srli_epi32"], "_mm256_srli_epi32": ["_mm256_slli_epi32"],
    "_mm_unpacklo_epi32": ["_mm_unpackhi_epi32"], "_mm_unpackhi_epi32": ["_mm_unpacklo_epi32"],
    "_mm_unpacklo_epi64": ["_mm_unpackhi_epi64"], "_mm_unpackhi_epi64": ["_mm_unpacklo_epi64"],
    "_mm256_unpacklo_epi64": ["_mm256_unpackhi_epi64"], "_mm256_unpackhi_epi64": ["_mm256_unpacklo_epi64"],
    "_mm256_unpacklo_epi32": ["_mm256_unpackhi_epi32"], "_mm256_unpackhi_epi32": ["_mm256_unpacklo_epi32"],
    "_mm_add_epi32": ["_mm_sub_epi32", "_mm_xor_si128"], "_mm_xor_si128": ["_mm_or_si128"], "_mm_or_si128": ["_mm_xor_si128"], "_mm_and_si128": ["_mm_or_si128"],
    "_mm256_add_epi32": ["_mm256_xor_si256"], "_mm256_xor_si256": ["_mm256_or_si256"], "_mm256_or_si256": ["_mm256_xor_si256"], "_mm256_and_si256": ["_mm256_or_si256"],
    "_mm256_add_epi64": ["_mm256_xor_si256"], "_mm_add_epi64": ["_mm_xor_si128"],
    "ct_lt": ["ct_gt"], "ct_gt": ["ct_lt"], "ct_eq": ["ct_ne"], "ct_ne": ["ct_eq"], "is_true": ["is_false"], "is_false": ["is_true"],
    "checked_add": ["wrapping_add"], "overflowing_add": ["overflowing_sub"],
    "first": ["last"], "last": ["first"],
}


def test_regions(src):
    """byte ranges of #[cfg(test)] items (mod ... { ... } or fn)."""
    out = []
    for m in re.finditer(r"#\[cfg\((?:all\()?test[^\]]*\]", src):
        i = src.find("{", m.end())
        semi = src.find(";", m.end())
        if semi != -1 and (i == -1 or semi < i):
            out.append((m.start(), semi + 1)); continue
        if i == -1:
            continue
        depth = 0; j = i
        while j < len(src):
            c = src[j]
            if c == "{": depth += 1
            elif c == "}":
                depth -= 1
                if depth == 0: break
            j += 1
        out.append((m.start(), j + 1))
    return out


def mutants_of(path, src):
    skip = test_regions(src)
    def in_skip(p): return any(a <= p < b for a, b in skip)
    toks = []
    pos = 0
    while pos < len(src):
        m = TOK.match(src, pos)
        if not m:
            pos += 1; continue
        toks.append((m.lastgroup, m.group(), m.start()))
        pos = m.end()
    res = []
    # line classification to skip attributes / use / doc lines
    line_starts = [0]
    for i, c in enumerate(src):
        if c == "\n": line_starts.append(i + 1)
    import bisect
    def lineno(p): return bisect.bisect_right(line_starts, p)
    def linetext(p):
        ln = lineno(p) - 1
        e = src.find("\n", line_starts[ln])
        return src[line_starts[ln]: e if e != -1 else len(src)]
    sig = [t for t in toks if t[0] not in ("ws", "lc", "bc")]
    for k, (kind, text, p) in enumerate(sig):
        if in_skip(p):
            continue
        lt = linetext(p).strip()
        if lt.startswith("#") or lt.startswith("use ") or lt.startswith("pub use ") or lt.startswith("//") or lt.startswith("debug_assert"):
            continue
        prev = sig[k - 1][1] if k else ""
        nxt = sig[k + 1][1] if k + 1 < len(sig) else ""
        if kind == "num":
            m = re.match(r"(0x|0b)?([0-9a-fA-F_]+?)((?:[iu](?:8|16|32|64|128|size))?)$", text)
            if not m: continue
            base = {"0x": 16, "0b": 2, None: 10}[m.group(1)]
            digits = m.group(2).replace("_", "")
            if base == 10 and not digits.isdigit(): continue
            try: v = int(digits, base)
            except ValueError: continue
            def fmt(n):
                if base == 16: return "0x%x%s" % (n, m.group(3))
                if base == 2: return "0b%s%s" % (bin(n)[2:], m.group(3))
                return "%d%s" % (n, m.group(3))
            # generic / type positions produce compile errors and are discarded later; that is fine
            for nv in ([v + 1] + ([v - 1] if v > 0 else [])):
                res.append((p, len(text), fmt(nv), "lit"))
            if base == 16 and v > 0xff:
                res.append((p, len(text), fmt(v ^ (1 << (v.bit_length() // 2))), "litbit"))
        elif kind == "op" and text in OPSWAP:
            if text in ("<", ">") and (prev in ("::",) or re.match(r"[A-Z]", nxt or " ") or nxt in ("u8", "u32", "u64", "usize", "const", "'", "&", "[", "(")):
                continue  # generics
            if text in ("&",) and (prev in ("(", ",", "=", "[", "{", ":", "->", "&", "return", "in", "for") or prev == ""):
                continue  # reference
            if text in ("*",) and (prev in ("(", ",", "=", "[", "{", ";", "}", "&", "+=", "-=", "^=", "|=") or prev == ""):
                continue  # deref
            if text in ("-",) and prev in ("(", ",", "=", "[", "{", "return"):
                continue  # unary minus
            if text == "|" and (prev in ("(", ",") or nxt in ("{",)):  # closure bars
                continue
            for r in OPSWAP[text]:
                res.append((p, len(text), r, "op"))
        elif kind == "id" and text in IDSWAP:
            if text in ("min", "max", "first", "last", "true", "false") or prev in (".", "::") or nxt == "(":
                for r in IDSWAP[text]:
                    res.append((p, len(text), r, "id"))
    # statement deletion: whole single-line statements
    for ln, st in enumerate(line_starts):
        e = src.find("\n", st)
        if e == -1: e = len(src)
        t = src[st:e]
        s = t.strip()
        if in_skip(st) or not s.endswith(";"): continue
        if re.match(r"(let|use|pub|const|static|return|break|continue|type|fn|mod|//|#|debug_assert|assert|\}|extern|unsafe impl|impl)", s): continue
        if s.count("(") != s.count(")") or s.count("{") != s.count("}") or s.count("[") != s.count("]"): continue
        res.append((st, e - st, " " * (len(t) - len(t.lstrip())) + "// " + s[:0], "del"))
    out = []
    for (p, n, rep, kind) in res:
        out.append({"file": path, "pos": p, "len": n, "rep": rep, "kind": kind, "line": lineno(p), "before": src[p:p + n].strip()[:80], "ctx": linetext(p).strip()[:140]})
    return out


def prop_map():
    m = {}
    for l in open(os.path.join(VERIF, "properties.jsonl")):
        d = json.loads(l)
        for f in d["anchors"]["files"]:
            m.setdefault(f, []).append(d["id"])
    return m

EXTRA = {  # files no property anchors by name, mapped by reading
    "src/hashing/sha2/impl256/aarch64.rs": [],
    "src/simd.rs": ["C01", "C16"],
    "src/hashing/blake2/avx2.rs": ["C01", "C16"], "src/hashing/blake2/avx.rs": ["C01", "C16", "C20"],
    "src/curve25519/fe/load.rs": ["C12", "C15", "C17"],
    "src/hashing/sha2/impl512/reference.rs": ["C01", "C13"],
    "src/hashing/sha2/impl256/reference.rs": ["C01", "C16", "C20"],
}

_local = threading.local()
_counter = [0]
_lock = threading.Lock()


def worker_dir(base):
    if not hasattr(_local, "dir"):
        with _lock:
            _counter[0] += 1
            n = _counter[0]
        d = os.path.join(base, "w%d" % n)
        os.makedirs(d)
        subprocess.check_call(["rsync", "-a", "--exclude", "target", "--exclude", ".git", REPO + "/", d + "/repo/"])
        _local.dir = d
    return _local.dir


def sh(cmd, cwd, env=None, timeout=900):
    """run a shell pipeline in its own process group; on timeout kill the WHOLE group (a mutant can make a test binary
    loop forever: killing only the shell leaves the binary burning a core)"""
    import signal
    e = dict(os.environ); e["CARGO_NET_OFFLINE"] = "true"
    if env: e.update(env)
    p = subprocess.Popen(cmd, cwd=cwd, env=e, shell=True, stdout=subprocess.PIPE, stderr=subprocess.STDOUT, text=True, start_new_session=True)
    try:
        out, _ = p.communicate(timeout=timeout)
        return p.returncode, out
    except subprocess.TimeoutExpired:
        try:
            os.killpg(p.pid, signal.SIGKILL)
        except ProcessLookupError:
            pass
        p.communicate()
        return 124, "timeout"
    finally:
        try:
            os.killpg(p.pid, signal.SIGKILL)
        except (ProcessLookupError, PermissionError):
            pass


def run_mutant(mu, base, allchecks, pmap, allprops):
    d = worker_dir(base)
    scr = os.path.join(d, "repo")
    fpath = os.path.join(scr, mu["file"])
    orig = open(os.path.join(REPO, mu["file"])).read()
    mutated = orig[:mu["pos"]] + mu["rep"] + orig[mu["pos"] + mu["len"]:]
    open(fpath, "w").write(mutated)
    try:
        rf, feat, mode = FILE_CFG.get(mu["file"], ("", "", "test"))
        env = {"CARGO_TARGET_DIR": os.path.join(d, "tgt-" + hashlib.md5((rf + feat).encode()).hexdigest()[:6])}
        if rf: env["RUSTFLAGS"] = rf
        if mode == "check":
            rc, out = sh("cargo check --offline --lib -q %s 2>&1 | tail -5" % feat, scr, env)
            if "error" in out:
                return dict(mu, status="nocompile")
        else:
            rc, out = sh("cargo test --offline --lib %s 2>&1 | grep -E 'test result|^error' | head -3" % feat, scr, env, timeout=600)
            m = re.search(r"test result: (\w+)\. (\d+) passed; (\d+) failed", out)
            if "error" in out or not m:
                return dict(mu, status="nocompile" if "error" in out else "timeout")
            if m.group(1) != "ok":
                return dict(mu, status="killed-by-tests")
        if mu["file"] in FILE_CFG and mode == "test":
            pass
        props = allprops if allchecks else sorted(set(pmap.get(mu["file"], []) + EXTRA.get(mu["file"], [])))
        caught = []
        errs = []
        for pid in props:
            env2 = {"CX_REPO": scr, "CX_EVIDENCE_DIR": os.path.join(d, "ev"), "CX_CACHE_DIR": os.path.join(d, "cache")}
            rc, out = sh("%s %s --tier quick" % (os.path.join(VERIF, "check"), pid), VERIF, env2, timeout=900)
            if rc == 1 and "VIOLATION property=" in out:
                rl = [l.strip() for l in out.splitlines() if l.strip().startswith("rule=")]
                caught.append((pid, rl[0][:140] if rl else ""))
                if not allchecks:
                    break
            elif rc != 0:
                errs.append((pid, out[-300:]))
        shutil.rmtree(os.path.join(d, "cache"), ignore_errors=True)
        return dict(mu, status="CAUGHT" if caught else "SURVIVED", caught=caught, errors=errs, props=props)
    finally:
        open(fpath, "w").write(orig)


def main():
    a = sys.argv[1:]
    if "--help" in a or "-h" in a:
        print(__doc__)
        return
    def opt(name, default=None):
        if name in a:
            return a[a.index(name) + 1]
        return default
    files = []
    if "--files" in a:
        i = a.index("--files") + 1
        while i < len(a) and not a[i].startswith("--"):
            files.append(a[i]); i += 1
    per = int(opt("--per-file", "40"))
    jobs = int(opt("--jobs", "8"))
    seed = int(opt("--seed", "1"))
    outp = opt("--out", "/dev/stdout")
    kinds = opt("--kinds")
    allchecks = "--all-checks" in a
    pmap = prop_map()
    allprops = ["C%02d" % i for i in range(1, 21)]
    if not files:
        for root, dirs, fs in os.walk(os.path.join(REPO, "src")):
            for f in fs:
                rel = os.path.relpath(os.path.join(root, f), REPO)
                if f.endswith(".rs") and "test" not in f and "aarch64" not in f:
                    files.append(rel)
    rnd = random.Random(seed)
    todo = []
    if opt("--from"):
        todo = [dict((k, m[k]) for k in ("file", "pos", "len", "rep", "kind", "line", "before", "ctx")) for m in json.load(open(opt("--from")))]
        files = []
    for f in sorted(files):
        src = open(os.path.join(REPO, f)).read()
        ms = mutants_of(f, src)
        if kinds:
            ms = [m for m in ms if m["kind"] in kinds.split(",")]
        rnd.shuffle(ms)
        todo += ms[:per]
    print("mutants: %d over %d files" % (len(todo), len(files)), file=sys.stderr)
    base = tempfile.mkdtemp(prefix="mutsweep-", dir="/var/tmp")
    n = {"nocompile": 0, "killed-by-tests": 0, "CAUGHT": 0, "SURVIVED": 0, "timeout": 0}
    try:
        with open(outp, "a") as fo, ThreadPoolExecutor(max_workers=jobs) as ex:
            for r in ex.map(lambda m: run_mutant(m, base, allchecks, pmap, allprops), todo):
                n[r["status"]] = n.get(r["status"], 0) + 1
                if r["status"] in ("CAUGHT", "SURVIVED"):
                    fo.write(json.dumps(r) + "\n"); fo.flush()
                if r["status"] == "SURVIVED":
                    print("SURVIVED %s:%d [%s] %r -> %r | %s" % (r["file"], r["line"], r["kind"], r["before"], r["rep"].strip()[:40], r["ctx"]), file=sys.stderr)
                for e in r.get("errors", []):
                    print("CHECK-ERROR %s %s:%d %s" % (e[0], r["file"], r["line"], e[1][-200:].replace("\n", " ")), file=sys.stderr)
        print("summary: %s" % n, file=sys.stderr)
    finally:
        shutil.rmtree(base, ignore_errors=True)

main()
