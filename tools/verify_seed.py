#!/usr/bin/env python3
"""Confirm a seeded change independently:  tools/verify_seed.py <src_dir> <dest_id> <property>
 src_dir has patch.diff + demo.rs|demo.diff (+notes.md).  In a scratch copy of /repo:
  1. patch applies, crate builds, the pinned lib tests (63) pass with the patch;
  2. the demonstration FAILS with the patch;   3. and PASSES without it.
 On success stores /verif/seeded/<dest_id>/{patch.diff,demo.*,meta.json}."""
import json, os, shutil, subprocess, sys, tempfile, re

def sh(cmd, cwd, env=None, timeout=1800):
    e = dict(os.environ); e["CARGO_NET_OFFLINE"] = "true"
    if env: e.update(env)
    p = subprocess.run(cmd, cwd=cwd, env=e, shell=True, stdout=subprocess.PIPE, stderr=subprocess.STDOUT, text=True, timeout=timeout)
    return p.returncode, p.stdout

CONFIGS = [
    ("default", {}, ""),
    ("avx", {"RUSTFLAGS": "-C target-feature=+avx"}, ""),
    ("avx2", {"RUSTFLAGS": "-C target-feature=+avx2"}, ""),
    ("sse41", {"RUSTFLAGS": "-C target-feature=+sse4.1"}, ""),
    ("force32", {"RUSTFLAGS": "--cap-lints allow"}, "--features force-32bits"),
    ("release-ovf", {"RUSTFLAGS": "-C overflow-checks=on"}, "--release"),
]

def main():
    src, dest, prop = sys.argv[1], sys.argv[2], sys.argv[3]
    tmp = tempfile.mkdtemp(prefix="seedv-")
    try:
        scr = os.path.join(tmp, "repo")
        subprocess.check_call(["rsync", "-a", "--exclude", "target", "--exclude", ".git", "/repo/", scr + "/"])
        sh("git init -q && git add -A && git commit -qm base", scr, {"GIT_AUTHOR_NAME": "x", "GIT_AUTHOR_EMAIL": "x@x", "GIT_COMMITTER_NAME": "x", "GIT_COMMITTER_EMAIL": "x@x"})
        patch = os.path.join(src, "patch.diff")
        rc, out = sh("git apply --check %s" % patch, scr)
        if rc != 0:
            print("FAIL patch does not apply:", out[-500:]); return 1
        sh("git apply %s" % patch, scr)
        env = {"CARGO_TARGET_DIR": os.path.join(tmp, "tgt")}
        rc, out = sh("cargo test --offline --lib 2>&1 | grep -E 'test result|error(\\[|:)'", scr, env)
        m = re.search(r"test result: (\w+)\. (\d+) passed; (\d+) failed", out)
        if not m or m.group(1) != "ok" or int(m.group(2)) != 63:
            print("FAIL existing tests with patch:", out[-800:]); return 1
        # install demo
        demo_rs = os.path.join(src, "demo.rs"); demo_diff = os.path.join(src, "demo.diff")
        used = None
        def install_demo():
            if os.path.exists(demo_rs):
                os.makedirs(os.path.join(scr, "tests"), exist_ok=True)
                shutil.copy(demo_rs, os.path.join(scr, "tests", "demo.rs"))
                return "--test demo"
            elif os.path.exists(demo_diff):
                rc, out = sh("git apply %s" % demo_diff, scr)
                if rc != 0:
                    raise RuntimeError("demo.diff does not apply: " + out[-300:])
                return "--lib"
            raise RuntimeError("no demo")
        tgt = install_demo()
        result = None
        for name, cenv, extra in CONFIGS:
            e = dict(env); e.update(cenv)
            rc1, out1 = sh("cargo test --offline %s %s 2>&1 | tail -40" % (extra, tgt), scr, e)
            bad1 = ("test result: FAILED" in out1) or ("error: test failed" in out1)
            compiled = "test result:" in out1
            if not compiled:
                continue
            if bad1:
                # revert the source patch only
                sh("git apply -R %s" % patch, scr)
                rc2, out2 = sh("cargo test --offline %s %s 2>&1 | tail -40" % (extra, tgt), scr, e)
                ok2 = ("test result: ok" in out2) and ("FAILED" not in out2)
                sh("git apply %s" % patch, scr)
                if ok2:
                    result = (name, cenv, extra)
                    break
                else:
                    print("  config %s: demo fails even WITHOUT the patch" % name)
        if not result:
            print("FAIL demo did not discriminate in any configuration"); return 1
        d = os.path.join("/verif/seeded", dest)
        os.makedirs(d, exist_ok=True)
        shutil.copy(patch, os.path.join(d, "patch.diff"))
        for f in ("demo.rs", "demo.diff", "notes.md"):
            if os.path.exists(os.path.join(src, f)):
                shutil.copy(os.path.join(src, f), os.path.join(d, f))
        notes = open(os.path.join(src, "notes.md")).read() if os.path.exists(os.path.join(src, "notes.md")) else ""
        meta = {"property": prop, "origin": "independent sub-agent given only the property text and a scratch worktree",
                "needs_to_manifest": notes[:1500],
                "confirmed": {"patch_applies": True, "existing_63_tests_pass_with_patch": True, "demo_fails_with_patch": True, "demo_passes_without_patch": True,
                              "demo_config": result[0], "demo_cmd": ("%s cargo test --offline %s %s" % (" ".join("%s='%s'" % kv for kv in result[1].items()), result[2], tgt)).strip()},
                "files_touched": sorted(set(re.findall(r"^\+\+\+ b/(\S+)", open(patch).read(), re.M)))}
        json.dump(meta, open(os.path.join(d, "meta.json"), "w"), indent=1)
        print("OK %s (%s) demo config=%s files=%s" % (dest, prop, result[0], meta["files_touched"]))
        return 0
    finally:
        shutil.rmtree(tmp, ignore_errors=True)

sys.exit(main())
