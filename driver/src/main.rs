// cxfacts: a rustc_private driver that dumps type-checked program facts (MIR bodies with
// resolved callees, evaluated constants, ADT layouts, impls) of one crate as JSON.
// It never interprets anything: every rule lives in /verif/cxsa (Python).
//
// Invocation (through cargo): RUSTC_WORKSPACE_WRAPPER=<this> cargo +nightly check
// Environment: CXFACTS_OUT=<file>  CXFACTS_CRATE=<crate name, default cryptoxide>
#![feature(rustc_private)]
#![allow(clippy::all)]

extern crate rustc_abi;
extern crate rustc_driver;
extern crate rustc_hir;
extern crate rustc_interface;
extern crate rustc_middle;
extern crate rustc_span;

use rustc_abi::{FieldsShape, Size, Variants};
use rustc_driver::Compilation;
use rustc_hir::def::DefKind;
use rustc_hir::def_id::{DefId, LOCAL_CRATE};
use rustc_middle::mir::interpret::{AllocId, GlobalAlloc, Scalar};
use rustc_middle::mir::{
    self, AggregateKind, AssertKind, BasicBlock, Body, Const, ConstValue, Operand, Place,
    ProjectionElem, Rvalue, StatementKind, TerminatorKind,
};
use rustc_middle::ty::layout::LayoutCx;
use rustc_middle::ty::print::PrintTraitRefExt;
use rustc_middle::ty::{self, Instance, Ty, TyCtxt, TypingEnv};
use rustc_span::Span;
use std::fmt::Write as _;

fn esc(s: &str) -> String {
    let mut o = String::with_capacity(s.len() + 2);
    o.push('"');
    for c in s.chars() {
        match c {
            '"' => o.push_str("\\\""),
            '\\' => o.push_str("\\\\"),
            '\n' => o.push_str("\\n"),
            '\r' => o.push_str("\\r"),
            '\t' => o.push_str("\\t"),
            c if (c as u32) < 0x20 => {
                let _ = write!(o, "\\u{:04x}", c as u32);
            }
            c => o.push(c),
        }
    }
    o.push('"');
    o
}

fn arr(items: &[String]) -> String {
    let mut o = String::from("[");
    for (i, it) in items.iter().enumerate() {
        if i > 0 {
            o.push(',');
        }
        o.push_str(it);
    }
    o.push(']');
    o
}

struct Cx<'tcx> {
    tcx: TyCtxt<'tcx>,
}

impl<'tcx> Cx<'tcx> {
    fn line(&self, sp: Span) -> (u32, bool) {
        let exp = sp.from_expansion();
        let sp2 = if exp { sp.source_callsite() } else { sp };
        let sm = self.tcx.sess.source_map();
        let loc = sm.lookup_char_pos(sp2.lo());
        (loc.line as u32, exp)
    }

    fn span_str(&self, sp: Span) -> String {
        self.tcx.sess.source_map().span_to_diagnostic_string(sp)
    }

    fn ty_str(&self, t: Ty<'tcx>) -> String {
        format!("{}", t)
    }

    fn place(&self, body: &Body<'tcx>, p: &Place<'tcx>) -> String {
        let mut projs: Vec<String> = Vec::new();
        for (base, elem) in p.iter_projections() {
            match elem {
                ProjectionElem::Deref => projs.push("\"*\"".to_string()),
                ProjectionElem::Field(f, _ty) => {
                    let bty = base.ty(body, self.tcx);
                    let mut name = String::new();
                    if let ty::Adt(adt, _) = bty.ty.kind() {
                        let vidx = bty.variant_index.unwrap_or(rustc_abi::FIRST_VARIANT);
                        if vidx.as_usize() < adt.variants().len() {
                            let v = adt.variant(vidx);
                            if f.as_usize() < v.fields.len() {
                                name = v.fields[f].name.to_string();
                            }
                        }
                    }
                    projs.push(format!("[\"f\",{},{}]", f.as_usize(), esc(&name)));
                }
                ProjectionElem::Index(l) => projs.push(format!("[\"i\",{}]", l.as_usize())),
                ProjectionElem::ConstantIndex { offset, min_length, from_end } => {
                    projs.push(format!("[\"c\",{},{},{}]", offset, min_length, from_end))
                }
                ProjectionElem::Subslice { from, to, from_end } => {
                    projs.push(format!("[\"s\",{},{},{}]", from, to, from_end))
                }
                ProjectionElem::Downcast(name, v) => projs.push(format!(
                    "[\"d\",{},{}]",
                    v.as_usize(),
                    esc(&name.map(|n| n.to_string()).unwrap_or_default())
                )),
                other => projs.push(format!("[\"o\",{}]", esc(&format!("{:?}", other)))),
            }
        }
        format!("[{},{}]", p.local.as_usize(), arr(&projs))
    }

    fn scalar_int_json(&self, ty: Ty<'tcx>, bits: u128, size: u64) -> String {
        match ty.kind() {
            ty::Int(_) => {
                let sz = size * 8;
                let v: i128 = if sz == 128 {
                    bits as i128
                } else if sz == 0 {
                    0
                } else {
                    let sh = 128 - sz;
                    ((bits << sh) as i128) >> sh
                };
                format!("{}", v)
            }
            _ => format!("{}", bits),
        }
    }

    // Decode memory at (alloc, offset) as a value of type `ty` into JSON.
    fn decode(&self, te: TypingEnv<'tcx>, alloc_id: AllocId, off: u64, ty: Ty<'tcx>, depth: u32) -> String {
        if depth > 12 {
            return "{\"k\":\"deep\"}".to_string();
        }
        let tcx = self.tcx;
        let layout = match tcx.layout_of(te.as_query_input(ty)) {
            Ok(l) => l,
            Err(_) => return format!("{{\"k\":\"nolayout\",\"t\":{}}}", esc(&self.ty_str(ty))),
        };
        let alloc = match tcx.try_get_global_alloc(alloc_id) {
            Some(GlobalAlloc::Memory(a)) => a.inner(),
            Some(GlobalAlloc::Static(did)) => match tcx.eval_static_initializer(did) {
                Ok(a) => a.inner(),
                Err(_) => return "{\"k\":\"staticerr\"}".to_string(),
            },
            _ => return "{\"k\":\"noalloc\"}".to_string(),
        };
        let size = layout.size.bytes();
        let read_uint = |o: u64, n: u64| -> Option<u128> {
            if o + n > alloc.len() as u64 {
                return None;
            }
            let bytes = alloc.inspect_with_uninit_and_ptr_outside_interpreter(o as usize..(o + n) as usize);
            let mut v: u128 = 0;
            for (i, b) in bytes.iter().enumerate() {
                v |= (*b as u128) << (8 * i);
            }
            Some(v)
        };
        match ty.kind() {
            ty::Bool | ty::Char | ty::Int(_) | ty::Uint(_) => match read_uint(off, size) {
                Some(v) => self.scalar_int_json(ty, v, size),
                None => "null".to_string(),
            },
            ty::Float(_) => match read_uint(off, size) {
                Some(v) => format!("{{\"k\":\"fbits\",\"v\":{}}}", v),
                None => "null".to_string(),
            },
            ty::Array(ety, _) => {
                let n = match &layout.fields {
                    FieldsShape::Array { count, .. } => *count,
                    _ => 0,
                };
                let el = match tcx.layout_of(te.as_query_input(*ety)) {
                    Ok(l) => l,
                    Err(_) => return "{\"k\":\"nolayout\"}".to_string(),
                };
                let es = el.size.bytes();
                if n > 100000 {
                    return format!("{{\"k\":\"bigarray\",\"n\":{}}}", n);
                }
                let mut items = Vec::with_capacity(n as usize);
                for i in 0..n {
                    items.push(self.decode(te, alloc_id, off + i * es, *ety, depth + 1));
                }
                arr(&items)
            }
            ty::Tuple(_) | ty::Adt(..) => {
                if let ty::Adt(adt, _) = ty.kind() {
                    if !adt.is_struct() {
                        // enums / unions: raw bytes
                        return self.raw_bytes(alloc, off, size);
                    }
                }
                if let Variants::Single { .. } = layout.variants {
                } else {
                    return self.raw_bytes(alloc, off, size);
                }
                let lcx = LayoutCx::new(tcx, te);
                let n = layout.fields.count();
                let mut fields = Vec::new();
                let names: Vec<String> = if let ty::Adt(adt, _) = ty.kind() {
                    adt.non_enum_variant().fields.iter().map(|f| f.name.to_string()).collect()
                } else {
                    (0..n).map(|i| i.to_string()).collect()
                };
                for i in 0..n {
                    let fo = layout.fields.offset(i).bytes();
                    let fl = layout.field(&lcx, i);
                    let v = self.decode(te, alloc_id, off + fo, fl.ty, depth + 1);
                    let nm = names.get(i).cloned().unwrap_or_else(|| i.to_string());
                    fields.push(format!("{}:{}", esc(&nm), v));
                }
                format!("{{{}}}", fields.join(","))
            }
            ty::Ref(_, inner, _) | ty::RawPtr(inner, _) => {
                let psz = tcx.data_layout.pointer_size().bytes();
                let prov = alloc.provenance().ptrs().get(&Size::from_bytes(off));
                let addr = read_uint(off, psz).unwrap_or(0) as u64;
                match prov {
                    None => format!("{{\"k\":\"ptr\",\"addr\":{}}}", addr),
                    Some(p) => {
                        let target = p.alloc_id();
                        match inner.kind() {
                            ty::Slice(ety) => {
                                let len = read_uint(off + psz, psz).unwrap_or(0) as u64;
                                let el = match tcx.layout_of(te.as_query_input(*ety)) {
                                    Ok(l) => l,
                                    Err(_) => return "{\"k\":\"nolayout\"}".to_string(),
                                };
                                let es = el.size.bytes();
                                let mut items = Vec::new();
                                if len <= 100000 {
                                    for i in 0..len {
                                        items.push(self.decode(te, target, addr + i * es, *ety, depth + 1));
                                    }
                                }
                                arr(&items)
                            }
                            ty::Str => {
                                let len = read_uint(off + psz, psz).unwrap_or(0) as u64;
                                self.raw_bytes_of(target, addr, len)
                            }
                            _ => self.decode(te, target, addr, *inner, depth + 1),
                        }
                    }
                }
            }
            _ => self.raw_bytes(alloc, off, size),
        }
    }

    fn raw_bytes_of(&self, alloc_id: AllocId, off: u64, size: u64) -> String {
        match self.tcx.try_get_global_alloc(alloc_id) {
            Some(GlobalAlloc::Memory(a)) => self.raw_bytes(a.inner(), off, size),
            _ => "{\"k\":\"noalloc\"}".to_string(),
        }
    }

    fn raw_bytes(&self, alloc: &rustc_middle::mir::interpret::Allocation, off: u64, size: u64) -> String {
        if off + size > alloc.len() as u64 {
            return "{\"k\":\"oob\"}".to_string();
        }
        let bytes = alloc.inspect_with_uninit_and_ptr_outside_interpreter(off as usize..(off + size) as usize);
        let mut h = String::with_capacity(bytes.len() * 2);
        for b in bytes {
            let _ = write!(h, "{:02x}", b);
        }
        format!("{{\"k\":\"bytes\",\"hex\":\"{}\"}}", h)
    }

    fn const_value(&self, te: TypingEnv<'tcx>, cv: ConstValue, ty: Ty<'tcx>) -> String {
        let tcx = self.tcx;
        match cv {
            ConstValue::Scalar(Scalar::Int(si)) => {
                let size = si.size().bytes();
                let bits = si.to_bits(si.size());
                match ty.kind() {
                    ty::Bool | ty::Char | ty::Int(_) | ty::Uint(_) => self.scalar_int_json(ty, bits, size),
                    _ => format!("{{\"k\":\"scalar\",\"v\":{},\"size\":{}}}", bits, size),
                }
            }
            ConstValue::Scalar(Scalar::Ptr(ptr, _)) => {
                let (prov, offset) = ptr.into_raw_parts();
                let aid = prov.alloc_id();
                match ty.kind() {
                    ty::Ref(_, inner, _) | ty::RawPtr(inner, _) => match inner.kind() {
                        ty::Slice(_) | ty::Str => "{\"k\":\"thinptr-to-unsized\"}".to_string(),
                        _ => self.decode(te, aid, offset.bytes(), *inner, 0),
                    },
                    _ => "{\"k\":\"ptr\"}".to_string(),
                }
            }
            ConstValue::ZeroSized => "{\"k\":\"zst\"}".to_string(),
            ConstValue::Slice { alloc_id, meta } => {
                // &[T] or &str pointing at offset 0 of alloc with `meta` elements
                match ty.kind() {
                    ty::Ref(_, inner, _) => match inner.kind() {
                        ty::Slice(ety) => {
                            let el = match tcx.layout_of(te.as_query_input(*ety)) {
                                Ok(l) => l,
                                Err(_) => return "{\"k\":\"nolayout\"}".to_string(),
                            };
                            let es = el.size.bytes();
                            let mut items = Vec::new();
                            for i in 0..meta {
                                items.push(self.decode(te, alloc_id, i * es, *ety, 1));
                            }
                            arr(&items)
                        }
                        ty::Str => self.raw_bytes_of(alloc_id, 0, meta),
                        _ => "{\"k\":\"slice?\"}".to_string(),
                    },
                    _ => "{\"k\":\"slice?\"}".to_string(),
                }
            }
            ConstValue::Indirect { alloc_id, offset } => self.decode(te, alloc_id, offset.bytes(), ty, 0),
        }
    }

    fn fn_ref(&self, te: TypingEnv<'tcx>, def_id: DefId, args: ty::GenericArgsRef<'tcx>) -> String {
        let tcx = self.tcx;
        let mut o = String::new();
        let _ = write!(
            o,
            "\"fn\":{},\"fn_local\":{},\"ga\":{}",
            esc(&tcx.def_path_str(def_id)),
            def_id.is_local(),
            arr(&args.iter().map(|a| esc(&format!("{}", a))).collect::<Vec<_>>())
        );
        if let Some(tr) = tcx.trait_of_assoc(def_id) {
            let _ = write!(o, ",\"trait\":{}", esc(&tcx.def_path_str(tr)));
        }
        // resolve
        let res = std::panic::catch_unwind(std::panic::AssertUnwindSafe(|| Instance::try_resolve(tcx, te, def_id, args)));
        if let Ok(Ok(Some(inst))) = res {
            let rd = inst.def_id();
            let kind = match inst.def {
                ty::InstanceKind::Item(_) => "item",
                ty::InstanceKind::Intrinsic(_) => "intrinsic",
                ty::InstanceKind::Virtual(..) => "virtual",
                ty::InstanceKind::ClosureOnceShim { .. } => "closure_once",
                ty::InstanceKind::FnPtrShim(..) => "fnptr_shim",
                ty::InstanceKind::CloneShim(..) => "clone_shim",
                ty::InstanceKind::DropGlue(..) => "drop_glue",
                _ => "other",
            };
            let _ = write!(
                o,
                ",\"res\":{},\"res_local\":{},\"res_kind\":\"{}\",\"res_ga\":{}",
                esc(&tcx.def_path_str(rd)),
                rd.is_local(),
                kind,
                arr(&inst.args.iter().map(|a| esc(&format!("{}", a))).collect::<Vec<_>>())
            );
            if rd.is_local() {
                let _ = write!(o, ",\"res_id\":{}", rd.index.as_usize());
            }
        }
        if def_id.is_local() {
            let _ = write!(o, ",\"fn_id\":{}", def_id.index.as_usize());
        }
        o
    }

    fn constant(&self, te: TypingEnv<'tcx>, c: &Const<'tcx>) -> String {
        let tcx = self.tcx;
        let ty = c.ty();
        let mut o = format!("{{\"t\":{}", esc(&self.ty_str(ty)));
        match ty.kind() {
            ty::FnDef(def_id, args) => {
                let _ = write!(o, ",{}", self.fn_ref(te, *def_id, args));
                o.push('}');
                return o;
            }
            ty::Closure(def_id, _args) => {
                let _ = write!(o, ",\"closure\":{},\"closure_id\":{}", esc(&tcx.def_path_str(*def_id)), def_id.index.as_usize());
                o.push('}');
                return o;
            }
            _ => {}
        }
        // origin information
        match c {
            Const::Unevaluated(uv, _) => {
                let _ = write!(o, ",\"def\":{}", esc(&tcx.def_path_str(uv.def)));
                if let Some(p) = uv.promoted {
                    let _ = write!(o, ",\"promoted\":{}", p.as_usize());
                }
                if !uv.args.is_empty() {
                    let _ = write!(
                        o,
                        ",\"def_ga\":{}",
                        arr(&uv.args.iter().map(|a| esc(&format!("{}", a))).collect::<Vec<_>>())
                    );
                }
            }
            Const::Ty(_, ct) => {
                if let ty::ConstKind::Param(p) = ct.kind() {
                    let _ = write!(o, ",\"param\":{}", esc(&p.name.to_string()));
                } else if let ty::ConstKind::Unevaluated(uv) = ct.kind() {
                    let _ = write!(o, ",\"def\":{}", esc(&tcx.def_path_str(uv.def)));
                }
            }
            Const::Val(..) => {}
        }
        // evaluated value
        let ev = std::panic::catch_unwind(std::panic::AssertUnwindSafe(|| c.eval(tcx, te, rustc_span::DUMMY_SP)));
        match ev {
            Ok(Ok(cv)) => {
                let v = self.const_value(te, cv, ty);
                let _ = write!(o, ",\"v\":{}", v);
            }
            Ok(Err(_)) => {
                let _ = write!(o, ",\"noeval\":1");
            }
            Err(_) => {
                let _ = write!(o, ",\"noeval\":2");
            }
        }
        o.push('}');
        o
    }

    fn operand(&self, te: TypingEnv<'tcx>, body: &Body<'tcx>, op: &Operand<'tcx>) -> String {
        match op {
            Operand::Copy(p) => format!("[\"cp\",{}]", self.place(body, p)),
            Operand::Move(p) => format!("[\"mv\",{}]", self.place(body, p)),
            Operand::Constant(c) => format!("[\"k\",{}]", self.constant(te, &c.const_)),
            #[allow(unreachable_patterns)]
            other => format!("[\"o\",{}]", esc(&format!("{:?}", other))),
        }
    }

    fn rvalue(&self, te: TypingEnv<'tcx>, body: &Body<'tcx>, rv: &Rvalue<'tcx>) -> String {
        let tcx = self.tcx;
        match rv {
            Rvalue::Use(op, ..) => format!("[\"use\",{}]", self.operand(te, body, op)),
            Rvalue::Repeat(op, n) => {
                let nn = n.try_to_target_usize(tcx).map(|v| v.to_string()).unwrap_or_else(|| esc(&format!("{}", n)));
                format!("[\"rep\",{},{}]", self.operand(te, body, op), nn)
            }
            Rvalue::Ref(_, bk, p) => {
                let m = match bk {
                    mir::BorrowKind::Mut { .. } => "mut",
                    _ => "shr",
                };
                format!("[\"ref\",\"{}\",{}]", m, self.place(body, p))
            }
            Rvalue::RawPtr(k, p) => format!("[\"raw\",{},{}]", esc(&format!("{:?}", k)), self.place(body, p)),
            Rvalue::Cast(kind, op, ty) => format!(
                "[\"cast\",{},{},{}]",
                esc(&format!("{:?}", kind)),
                self.operand(te, body, op),
                esc(&self.ty_str(*ty))
            ),
            Rvalue::BinaryOp(bop, ops) => format!(
                "[\"bin\",{},{},{}]",
                esc(&format!("{:?}", bop)),
                self.operand(te, body, &ops.0),
                self.operand(te, body, &ops.1)
            ),
            Rvalue::UnaryOp(uop, op) => format!("[\"un\",{},{}]", esc(&format!("{:?}", uop)), self.operand(te, body, op)),
            Rvalue::Discriminant(p) => format!("[\"disc\",{}]", self.place(body, p)),
            Rvalue::Aggregate(kind, ops) => {
                let k = match &**kind {
                    AggregateKind::Array(t) => format!("[\"array\",{}]", esc(&self.ty_str(*t))),
                    AggregateKind::Tuple => "[\"tuple\"]".to_string(),
                    AggregateKind::Adt(did, vidx, _args, _, _) => {
                        let adt = tcx.adt_def(*did);
                        let v = adt.variant(*vidx);
                        let names: Vec<String> = v.fields.iter().map(|f| esc(&f.name.to_string())).collect();
                        format!(
                            "[\"adt\",{},{},{},{}]",
                            esc(&tcx.def_path_str(*did)),
                            vidx.as_usize(),
                            esc(&v.name.to_string()),
                            arr(&names)
                        )
                    }
                    AggregateKind::Closure(did, _) => {
                        format!("[\"closure\",{},{}]", esc(&tcx.def_path_str(*did)), did.index.as_usize())
                    }
                    other => format!("[\"other\",{}]", esc(&format!("{:?}", other))),
                };
                let os: Vec<String> = ops.iter().map(|o| self.operand(te, body, o)).collect();
                format!("[\"agg\",{},{}]", k, arr(&os))
            }
            Rvalue::CopyForDeref(p) => format!("[\"cfd\",{}]", self.place(body, p)),
            other => format!("[\"other\",{}]", esc(&format!("{:?}", other))),
        }
    }

    fn body(&self, def_id: DefId, body: &Body<'tcx>) -> String {
        let tcx = self.tcx;
        let te = TypingEnv::post_analysis(tcx, def_id);
        let mut blocks: Vec<String> = Vec::new();
        for (_bb, data) in body.basic_blocks.iter_enumerated() {
            let mut stmts: Vec<String> = Vec::new();
            for st in &data.statements {
                let (ln, exp) = self.line(st.source_info.span);
                match &st.kind {
                    StatementKind::Assign(b) => {
                        let (p, rv) = &**b;
                        stmts.push(format!(
                            "[\"=\",{},{},{},{}]",
                            self.place(body, p),
                            self.rvalue(te, body, rv),
                            ln,
                            exp as u8
                        ));
                    }
                    StatementKind::SetDiscriminant { place, variant_index } => {
                        stmts.push(format!("[\"sd\",{},{},{}]", self.place(body, place), variant_index.as_usize(), ln));
                    }
                    StatementKind::Intrinsic(i) => {
                        stmts.push(format!("[\"intr\",{},{}]", esc(&format!("{:?}", i)), ln));
                    }
                    _ => {}
                }
            }
            let term = data.terminator();
            let (ln, exp) = self.line(term.source_info.span);
            let bbn = |b: &BasicBlock| b.as_usize();
            let t = match &term.kind {
                TerminatorKind::Goto { target } => format!("[\"goto\",{}]", bbn(target)),
                TerminatorKind::SwitchInt { discr, targets } => {
                    let mut ts = Vec::new();
                    for (v, b) in targets.iter() {
                        ts.push(format!("[{},{}]", v, bbn(&b)));
                    }
                    let dty = discr.ty(body, tcx);
                    format!(
                        "[\"sw\",{},{},{},{},{},{}]",
                        self.operand(te, body, discr),
                        arr(&ts),
                        bbn(&targets.otherwise()),
                        esc(&self.ty_str(dty)),
                        ln,
                        exp as u8
                    )
                }
                TerminatorKind::Return => "[\"ret\"]".to_string(),
                TerminatorKind::Unreachable => "[\"unr\"]".to_string(),
                TerminatorKind::UnwindResume => "[\"resume\"]".to_string(),
                TerminatorKind::UnwindTerminate(_) => "[\"abort\"]".to_string(),
                TerminatorKind::Drop { place, target, .. } => {
                    format!("[\"drop\",{},{}]", self.place(body, place), bbn(target))
                }
                TerminatorKind::Call { func, args, destination, target, .. } => {
                    let a: Vec<String> = args.iter().map(|x| self.operand(te, body, &x.node)).collect();
                    let tgt = target.map(|t| bbn(&t).to_string()).unwrap_or_else(|| "null".to_string());
                    format!(
                        "[\"call\",{},{},{},{},{},{}]",
                        self.operand(te, body, func),
                        arr(&a),
                        self.place(body, destination),
                        tgt,
                        ln,
                        exp as u8
                    )
                }
                TerminatorKind::Assert { cond, expected, msg, target, .. } => {
                    let kind = match &**msg {
                        AssertKind::BoundsCheck { .. } => "bounds".to_string(),
                        AssertKind::Overflow(op, ..) => format!("overflow:{:?}", op),
                        AssertKind::OverflowNeg(_) => "overflow:Neg".to_string(),
                        AssertKind::DivisionByZero(_) => "divzero".to_string(),
                        AssertKind::RemainderByZero(_) => "remzero".to_string(),
                        AssertKind::MisalignedPointerDereference { .. } => "misaligned".to_string(),
                        AssertKind::NullPointerDereference => "nullptr".to_string(),
                        other => format!("other:{:?}", other),
                    };
                    let detail = match &**msg {
                        AssertKind::BoundsCheck { len, index } => {
                            format!("[{},{}]", self.operand(te, body, len), self.operand(te, body, index))
                        }
                        AssertKind::Overflow(_, a, b) => {
                            format!("[{},{}]", self.operand(te, body, a), self.operand(te, body, b))
                        }
                        _ => "[]".to_string(),
                    };
                    format!(
                        "[\"assert\",{},{},{},{},{},{},{}]",
                        self.operand(te, body, cond),
                        expected,
                        esc(&kind),
                        bbn(target),
                        detail,
                        ln,
                        exp as u8
                    )
                }
                other => format!("[\"other\",{}]", esc(&format!("{:?}", other))),
            };
            blocks.push(format!("{{\"s\":{},\"t\":{},\"cleanup\":{}}}", arr(&stmts), t, data.is_cleanup));
        }
        let locals: Vec<String> = body.local_decls.iter().map(|d| esc(&self.ty_str(d.ty))).collect();
        let mut dbg: Vec<String> = Vec::new();
        for vdi in &body.var_debug_info {
            if let mir::VarDebugInfoContents::Place(p) = &vdi.value {
                dbg.push(format!("[{},{}]", esc(&vdi.name.to_string()), self.place(body, p)));
            }
        }
        format!(
            "\"argc\":{},\"locals\":{},\"dbg\":{},\"blocks\":{}",
            body.arg_count,
            arr(&locals),
            arr(&dbg),
            arr(&blocks)
        )
    }
}

struct Cb;

impl rustc_driver::Callbacks for Cb {
    fn after_analysis<'tcx>(&mut self, _c: &rustc_interface::interface::Compiler, tcx: TyCtxt<'tcx>) -> Compilation {
        let want = std::env::var("CXFACTS_CRATE").unwrap_or_else(|_| "cryptoxide".to_string());
        let cname = tcx.crate_name(LOCAL_CRATE).to_string();
        if cname != want {
            return Compilation::Continue;
        }
        let out = match std::env::var("CXFACTS_OUT") {
            Ok(o) => o,
            Err(_) => return Compilation::Continue,
        };
        let cx = Cx { tcx };
        let mut fns: Vec<String> = Vec::new();
        for ldid in tcx.mir_keys(()).iter() {
            let did = ldid.to_def_id();
            let kind = tcx.def_kind(did);
            let is_fn = matches!(kind, DefKind::Fn | DefKind::AssocFn | DefKind::Closure);
            if !is_fn {
                continue;
            }
            if !tcx.is_mir_available(did) {
                continue;
            }
            // const fn bodies are fine with optimized_mir as well
            let body = tcx.optimized_mir(did);
            let mut o = String::new();
            let _ = write!(
                o,
                "{{\"id\":{},\"path\":{},\"kind\":{},\"span\":{}",
                did.index.as_usize(),
                esc(&tcx.def_path_str(did)),
                esc(&format!("{:?}", kind)),
                esc(&cx.span_str(tcx.def_span(did)))
            );
            let _ = write!(o, ",\"body_span\":{}", esc(&cx.span_str(body.span)));
            let _ = write!(o, ",\"exp\":{}", tcx.def_span(did).from_expansion());
            if matches!(kind, DefKind::Fn | DefKind::AssocFn) {
                let vis = tcx.visibility(did);
                let _ = write!(o, ",\"vis\":{}", esc(&format!("{:?}", vis)));
                let sig = tcx.fn_sig(did).instantiate_identity().skip_norm_wip();
                let _ = write!(o, ",\"sig\":{}", esc(&format!("{}", sig)));
                let unsafety = format!("{:?}", sig.safety());
                let _ = write!(o, ",\"safety\":{}", esc(&unsafety));
            }
            if let Some(parent) = tcx.opt_parent(did) {
                let pk = tcx.def_kind(parent);
                let _ = write!(o, ",\"parent\":{},\"parent_kind\":{}", esc(&tcx.def_path_str(parent)), esc(&format!("{:?}", pk)));
                if let DefKind::Impl { of_trait } = pk {
                    let _ = write!(o, ",\"impl_id\":{}", parent.index.as_usize());
                    let st = tcx.type_of(parent).instantiate_identity().skip_norm_wip();
                    let _ = write!(o, ",\"self_ty\":{}", esc(&format!("{}", st)));
                    if of_trait {
                        let tr = tcx.impl_trait_ref(parent).instantiate_identity().skip_norm_wip();
                        let _ = write!(o, ",\"impl_trait\":{}", esc(&format!("{}", tr.print_only_trait_path())));
                    }
                }
                if matches!(kind, DefKind::Closure) {
                    let _ = write!(o, ",\"parent_id\":{}", parent.index.as_usize());
                }
            }
            // generics
            let g = tcx.generics_of(did);
            let mut gs = Vec::new();
            let mut gi = Some(g);
            while let Some(gg) = gi {
                for p in &gg.own_params {
                    gs.push(format!("[{},{}]", esc(&p.name.to_string()), esc(&format!("{:?}", p.kind).split('{').next().unwrap_or("").trim().to_string())));
                }
                gi = gg.parent.map(|p| tcx.generics_of(p));
            }
            let _ = write!(o, ",\"generics\":{}", arr(&gs));
            let _ = write!(o, ",\"name\":{}", esc(&tcx.opt_item_name(did).map(|s| s.to_string()).unwrap_or_default()));
            let _ = write!(o, ",{}", cx.body(did, body));
            o.push('}');
            fns.push(o);
        }

        // constants / statics
        let mut consts: Vec<String> = Vec::new();
        for ldid in tcx.hir_crate_items(()).definitions() {
            let did = ldid.to_def_id();
            let kind = tcx.def_kind(did);
            match kind {
                DefKind::Const { .. } | DefKind::AssocConst { .. } | DefKind::Static { .. } => {}
                _ => continue,
            }
            let g = tcx.generics_of(did);
            let generic = g.count() > 0 && g.requires_monomorphization(tcx);
            let ty = tcx.type_of(did).instantiate_identity().skip_norm_wip();
            let mut o = format!(
                "{{\"id\":{},\"path\":{},\"kind\":{},\"t\":{},\"span\":{}",
                did.index.as_usize(),
                esc(&tcx.def_path_str(did)),
                esc(&format!("{:?}", kind).split(|c| c == '{' || c == ' ').next().unwrap_or("").to_string()),
                esc(&cx.ty_str(ty)),
                esc(&cx.span_str(tcx.def_span(did)))
            );
            if let Some(parent) = tcx.opt_parent(did) {
                if let DefKind::Impl { of_trait } = tcx.def_kind(parent) {
                    let st = tcx.type_of(parent).instantiate_identity().skip_norm_wip();
                    let _ = write!(o, ",\"self_ty\":{}", esc(&format!("{}", st)));
                    if of_trait {
                        let tr = tcx.impl_trait_ref(parent).instantiate_identity().skip_norm_wip();
                        let _ = write!(o, ",\"impl_trait\":{}", esc(&format!("{}", tr.print_only_trait_path())));
                    }
                }
            }
            let has_body = match kind {
                DefKind::AssocConst { .. } => match tcx.opt_parent(did).map(|p| tcx.def_kind(p)) {
                    Some(DefKind::Trait) => tcx.defaultness(did).has_value(),
                    _ => true,
                },
                _ => true,
            };
            if generic {
                let _ = write!(o, ",\"generic\":true");
            }
            if !has_body {
                let _ = write!(o, ",\"nobody\":true");
            } else {
                let te = if generic { TypingEnv::post_analysis(tcx, did) } else { TypingEnv::fully_monomorphized() };
                let r = std::panic::catch_unwind(std::panic::AssertUnwindSafe(|| {
                    if matches!(kind, DefKind::Static { .. }) {
                        match tcx.eval_static_initializer(did) {
                            Ok(a) => {
                                let aid = tcx.reserve_and_set_static_alloc(did);
                                let _ = a;
                                Some(cx.decode(te, aid, 0, ty, 0))
                            }
                            Err(_) => None,
                        }
                    } else {
                        match tcx.const_eval_poly(did) {
                            Ok(cv) => Some(cx.const_value(te, cv, ty)),
                            Err(_) => None,
                        }
                    }
                }));
                match r {
                    Ok(Some(v)) => {
                        let _ = write!(o, ",\"v\":{}", v);
                    }
                    _ => {
                        let _ = write!(o, ",\"noeval\":1");
                    }
                }
            }
            o.push('}');
            consts.push(o);
        }

        // ADTs with layouts, impls
        let mut adts: Vec<String> = Vec::new();
        let mut impls: Vec<String> = Vec::new();
        for ldid in tcx.hir_crate_items(()).definitions() {
            let did = ldid.to_def_id();
            let kind = tcx.def_kind(did);
            match kind {
                DefKind::Struct | DefKind::Enum | DefKind::Union => {
                    let adt = tcx.adt_def(did);
                    let ty = tcx.type_of(did).instantiate_identity().skip_norm_wip();
                    let mut o = format!(
                        "{{\"path\":{},\"kind\":{},\"vis\":{},\"repr\":{},\"span\":{}",
                        esc(&tcx.def_path_str(did)),
                        esc(&format!("{:?}", kind)),
                        esc(&format!("{:?}", tcx.visibility(did))),
                        esc(&format!("{:?}", adt.repr())),
                        esc(&cx.span_str(tcx.def_span(did)))
                    );
                    let mut vs = Vec::new();
                    for v in adt.variants() {
                        let mut fs = Vec::new();
                        for f in &v.fields {
                            let fty = tcx.type_of(f.did).instantiate_identity().skip_norm_wip();
                            fs.push(format!(
                                "{{\"name\":{},\"vis\":{},\"t\":{}}}",
                                esc(&f.name.to_string()),
                                esc(&format!("{:?}", f.vis)),
                                esc(&cx.ty_str(fty))
                            ));
                        }
                        vs.push(format!("{{\"name\":{},\"fields\":{}}}", esc(&v.name.to_string()), arr(&fs)));
                    }
                    let _ = write!(o, ",\"variants\":{}", arr(&vs));
                    let g = tcx.generics_of(did);
                    let _ = write!(o, ",\"ngenerics\":{}", g.count());
                    if g.count() == 0 {
                        let te = TypingEnv::fully_monomorphized();
                        if let Ok(l) = tcx.layout_of(te.as_query_input(ty)) {
                            let _ = write!(o, ",\"size\":{},\"align\":{}", l.size.bytes(), l.align.abi.bytes());
                            if adt.is_struct() {
                                let mut offs = Vec::new();
                                for i in 0..l.fields.count() {
                                    offs.push(l.fields.offset(i).bytes().to_string());
                                }
                                let _ = write!(o, ",\"offsets\":{}", arr(&offs));
                            }
                        }
                    }
                    o.push('}');
                    adts.push(o);
                }
                DefKind::Impl { of_trait } => {
                    let st = tcx.type_of(did).instantiate_identity().skip_norm_wip();
                    let mut o = format!(
                        "{{\"id\":{},\"self_ty\":{},\"span\":{}",
                        did.index.as_usize(),
                        esc(&format!("{}", st)),
                        esc(&cx.span_str(tcx.def_span(did)))
                    );
                    if of_trait {
                        let tr = tcx.impl_trait_ref(did).instantiate_identity().skip_norm_wip();
                        let _ = write!(o, ",\"trait\":{}", esc(&format!("{}", tr.print_only_trait_path())));
                        let _ = write!(o, ",\"trait_full\":{}", esc(&format!("{}", tr)));
                    }
                    let _ = write!(o, ",\"derived\":{}", tcx.is_automatically_derived(did));
                    let _ = write!(o, ",\"exp\":{}", tcx.def_span(did).from_expansion());
                    let items: Vec<String> = tcx
                        .associated_items(did)
                        .in_definition_order()
                        .map(|it| format!("[{},{},{}]", esc(&it.name().to_string()), esc(&format!("{:?}", it.tag())), it.def_id.index.as_usize()))
                        .collect();
                    let _ = write!(o, ",\"items\":{}", arr(&items));
                    o.push('}');
                    impls.push(o);
                }
                _ => {}
            }
        }

        let run = std::env::var("CXFACTS_RUN").unwrap_or_default();
        let text = format!(
            "{{\"crate\":{},\"run\":{},\"fns\":{},\"consts\":{},\"adts\":{},\"impls\":{}}}",
            esc(&cname),
            esc(&run),
            arr(&fns),
            arr(&consts),
            arr(&adts),
            arr(&impls)
        );
        std::fs::write(&out, text).expect("cxfacts: cannot write output");
        Compilation::Continue
    }
}

fn main() {
    let mut args: Vec<String> = std::env::args().collect();
    // RUSTC_WORKSPACE_WRAPPER passes: <wrapper> <rustc> <args...>
    if args.len() > 1 && (args[1].ends_with("rustc") || args[1].contains("rustc")) && !args[1].starts_with('-') {
        args.remove(1);
    }
    rustc_driver::run_compiler(&args, &mut Cb);
}
